// C19 harness: real collaborative_call_once and enumerable_thread_specific / combinable under seeded random cooperative schedules at
// atomic-access granularity (every atomic of the flag / runner / table and of the scheduler is a schedule point).
//   h_misc once <trace> <nseeds> <seed0> <nthreads> <throwmask> <work>   callers are threads of an all-reserved arena (helpers moonlight inside it)
//   h_misc ets  <trace> <nseeds> <seed0> <nthreads> <kind>               kind: ets | etskey | comb
// Events: Call/FnBegin/FnEnd/FnThrow/Ret/Exc/Quiesce (TraceOnce.tla), Init/Local/Visit (TraceEts.tla), Stuck.
#include "oneapi/tbb/collaborative_call_once.h"
#include "oneapi/tbb/enumerable_thread_specific.h"
#include "oneapi/tbb/combinable.h"
#include "oneapi/tbb/task_group.h"
#include "oneapi/tbb/task_arena.h"
#include "sched_common.h"
VS_DEFINE_GLOBALS
using namespace vs;

// ------------------------------------------------------------------------------------------------ collaborative_call_once
static int g_attempts, g_payload, g_nret;
struct OnceThrow {};
static int run_once(int N, unsigned long seed, int den, unsigned throwmask, int work) {
    tbb::task_arena arena(N, N); arena.initialize(); cur_arena = &arena;
    tbb::collaborative_once_flag* flag = new tbb::collaborative_once_flag;
    g_attempts = 0; g_payload = 0; g_nret = 0;
    Sched S; S.stall_limit = 60000; S.log_schedule = true; focus_only(false); untrack_all(); track(&flag->m_state);
    S.spawn(N, [&](int id) {
        arena.execute([&] {
            for (int round = 0; round < 4; round++) {             // a caller that got the exception retries ("a later call retries")
                TR.emit("{\"e\":\"Call\",\"t\":%d}", id);
                try {
                    tbb::collaborative_call_once(*flag, [&] {
                        int a = ++g_attempts;
                        TR.emit("{\"e\":\"FnBegin\",\"t\":%d}", id);
                        if (work) { tbb::task_group tg; for (int k = 0; k < work; k++) tg.run([] { cosched::yield_point(); }); tg.wait(); }   // nested parallelism the helpers can join
                        if (throwmask & (1u << (a - 1))) { TR.emit("{\"e\":\"FnThrow\",\"t\":%d}", id); throw OnceThrow(); }
                        g_payload = 1;                              // plain write: the effect every returning caller must see
                        TR.emit("{\"e\":\"FnEnd\",\"t\":%d}", id);
                    });
                    TR.emit("{\"e\":\"Ret\",\"t\":%d,\"seen\":%d}", id, g_payload); ++g_nret;
                    break;
                } catch (OnceThrow&) { TR.emit("{\"e\":\"Exc\",\"t\":%d}", id); }
            }
        });
    });
    int rc = S.run_random(seed, 20000000, den);
    TR.sched(S.sched_log);
    if (rc != RC_OK) TR.emit("{\"e\":\"Stuck\",\"rc\":\"%s\"}", rc_name(rc).c_str());
    else TR.emit("{\"e\":\"Quiesce\",\"nret\":%d}", g_nret);
    long st = S.steps; S.join_all();
    if (rc == RC_OK) delete flag;
    return rc ? -1 : (int)st;
}

// ------------------------------------------------------------------------------------------------ enumerable_thread_specific / combinable
static std::map<const void*, int> g_rank;
static int rank_of(const void* p) { auto it = g_rank.find(p); if (it != g_rank.end()) return it->second; int r = (int)g_rank.size() + 1; g_rank[p] = r; return r; }
struct Elem { int owner; int tag; };
static thread_local int tl_id = -1;
struct Finit { Elem operator()() const { TR.emit("{\"e\":\"Init\",\"t\":%d}", tl_id); return Elem{tl_id, 0}; } };
template <class ETS> static int run_ets(int N, unsigned long seed, int den) {
    ETS* ets = new ETS(Finit()); g_rank.clear();
    Sched S; S.stall_limit = 60000; S.log_schedule = true; focus_only(false);
    // the root of the chain of slot arrays and the element count are the words of the growth protocol (PCT change points right after an access to them)
    untrack_all(); track(&ets->my_root); track(&ets->my_count);
    S.spawn(N, [&](int id) {
        tl_id = id;
        for (int k = 0; k < 3; k++) {
            bool ex = false; Elem& e = ets->local(ex);
            TR.emit("{\"e\":\"Local\",\"t\":%d,\"a\":%d,\"ex\":%d}", id, rank_of(&e), ex ? 1 : 0);
            if (k == 0) e.tag = 100 + id;
        }
    });
    int rc = S.run_random(seed, 8000000, den);
    TR.sched(S.sched_log);
    long st = S.steps;
    if (rc != RC_OK) { TR.emit("{\"e\":\"Stuck\",\"rc\":\"%s\"}", rc_name(rc).c_str()); S.join_all(); return -1; }
    S.join_all();
    std::ostringstream a, b; bool f = true;
    for (auto it = ets->begin(); it != ets->end(); ++it) { a << (f ? "" : ",") << rank_of(&*it); f = false; }
    TR.emit("{\"e\":\"Visit\",\"seen\":[%s]}", a.str().c_str());
    f = true; ets->combine_each([&](const Elem& e) { b << (f ? "" : ",") << rank_of(&e); f = false; });
    TR.emit("{\"e\":\"Visit\",\"seen\":[%s]}", b.str().c_str());
    delete ets;
    return (int)st;
}
static int run_comb(int N, unsigned long seed, int den) {
    typedef tbb::combinable<Elem> C; C* c = new C(Finit()); g_rank.clear();
    Sched S; S.stall_limit = 60000; S.log_schedule = true; focus_only(false);
    S.spawn(N, [&](int id) {
        tl_id = id;
        for (int k = 0; k < 2; k++) { bool ex = false; Elem& e = c->local(ex); TR.emit("{\"e\":\"Local\",\"t\":%d,\"a\":%d,\"ex\":%d}", id, rank_of(&e), ex ? 1 : 0); }
    });
    int rc = S.run_random(seed, 8000000, den);
    TR.sched(S.sched_log); long st = S.steps;
    if (rc != RC_OK) { TR.emit("{\"e\":\"Stuck\",\"rc\":\"%s\"}", rc_name(rc).c_str()); S.join_all(); return -1; }
    S.join_all();
    std::ostringstream b; bool f = true; c->combine_each([&](const Elem& e) { b << (f ? "" : ",") << rank_of(&e); f = false; });
    TR.emit("{\"e\":\"Visit\",\"seen\":[%s]}", b.str().c_str());
    delete c; return (int)st;
}

#include <sys/mman.h>
struct Stats { long paths, steps, stuck; };
int main(int argc, char** argv) {
    if (argc < 7) { fprintf(stderr, "usage\n"); return 2; }
    std::string mode = argv[1]; FILE* out = fopen(argv[2], "w"); int nseeds = atoi(argv[3]); unsigned long seed0 = strtoul(argv[4], nullptr, 10); int N = atoi(argv[5]);
    Stats* st = (Stats*)mmap(nullptr, sizeof(Stats), PROT_READ | PROT_WRITE, MAP_SHARED | MAP_ANONYMOUS, -1, 0); memset(st, 0, sizeof *st);
    vh::Timer tm; static const int dens[8] = {1, 3, 10, 40, -1, -2, -3, -5}; long crashed = 0;
    std::string tmp = std::string(argv[2]) + ".child"; bool first = true;
    // seeds run in forked chunks: a crash or hang of the code under test becomes a Crash / Stuck event of that execution, not a harness failure
    for (int c0 = 0; c0 < nseeds && st->stuck < 10 && crashed < 5; c0 += 25) {
        crashed += forked_case(tmp.c_str(), out, first, 600, [&] {
            for (int s = c0; s < c0 + 25 && s < nseeds && st->stuck < 10; s++) {
                TR.begin_exec(); int r;
                if (mode == "once") r = run_once(N, seed0 + s, dens[s % 8], (unsigned)strtoul(argv[6], nullptr, 0), argc > 7 ? atoi(argv[7]) : 0);
                else { std::string k = argv[6];
                    if (k == "ets") r = run_ets<tbb::enumerable_thread_specific<Elem>>(N, seed0 + s, dens[s % 8]);
                    else if (k == "etskey") r = run_ets<tbb::enumerable_thread_specific<Elem, tbb::cache_aligned_allocator<Elem>, tbb::ets_key_per_instance>>(N, seed0 + s, dens[s % 8]);
                    else r = run_comb(N, seed0 + s, dens[s % 8]); }
                ++st->paths; if (r < 0) ++st->stuck; else st->steps += r;
            }
        }, &c0);
    }
    fclose(out);
    printf("{\"paths\":%ld,\"steps\":%ld,\"stuck\":%ld,\"crashed\":%ld,\"wall\":%.2f}\n", st->paths, st->steps, st->stuck, crashed, tm.s());
    return 0;
}
