// Shared infrastructure for whole-runtime scenarios (C01, C03, C05, C06, C07, C16, C20 ...):
// N logical threads inside one all-reserved task_arena(N, N) (no RML worker ever joins, DESIGN 2.3); thread 0 runs the scenario,
// the others help (they sit in a dispatch loop stealing work) until thread 0 releases them.  Every atomic of the scheduler is a
// schedule point of the seeded random cooperative scheduler; a stuck run (deadlock / stall) becomes a Stuck event.
#pragma once
#include <sys/mman.h>
#include <sys/wait.h>
#include <signal.h>
#include <unistd.h>
#include "vh_tbb.h"
#include "oneapi/tbb/task_arena.h"
#include "oneapi/tbb/task_group.h"
#include <exception>
#include <sys/wait.h>
#include <unistd.h>

namespace vs {
using namespace cosched;
extern vh::TraceOut TR;

// ---- fault injection: the k-th call of a user callback of a given class throws
struct Injected { int id; };
struct Faults {
    long count[8] = {0}; long fail_at[8] = {-1, -1, -1, -1, -1, -1, -1, -1};
    void reset() { for (auto& c : count) c = 0; }
    void clear() { for (auto& f : fail_at) f = -1; reset(); }
    // returns true if this call must throw
    bool hit(int cls) { long c = __atomic_add_fetch(&count[cls], 1, __ATOMIC_SEQ_CST); return c == fail_at[cls]; }
};
extern Faults F;
enum { FC_BODY = 0, FC_JOIN = 1, FC_SPLIT = 2, FC_COPY = 3, FC_FILTER = 4, FC_OTHER = 5 };
inline void maybe_throw(int cls, int id) { if (F.hit(cls)) { TR.emit("{\"e\":\"Throw\",\"id\":%d,\"cls\":%d}", id, cls); throw Injected{id}; } }

// ---- live-object accounting for objects the library creates (copies / splits of user Range and Body objects)
extern long g_obj_ctor, g_obj_dtor, g_next_obj;
extern tbb::task_arena* cur_arena;       // the all-reserved arena the scenario runs in

struct Result { int rc; long steps; };

// Runs `scenario` on logical thread 0 inside arena(N,N); threads 1..N-1 help until it returns.
inline Result run_in_arena(int N, unsigned long seed, int den, long maxsteps, const std::function<void()>& scenario, bool log_sched = true,
                           const std::function<void()>& foreign = nullptr) {   // foreign: body of one extra logical thread that stays outside the arena
    tbb::task_arena arena(N, N);
    arena.initialize(); cur_arena = &arena;
    tbb::detail::d1::wait_context helpers_wc(1);
    std::vector<tbb::task_group_context*> hctx; for (int i = 0; i < N; i++) hctx.push_back(new tbb::task_group_context(tbb::task_group_context::isolated));
    Sched S; S.stall_limit = 60000; S.log_schedule = log_sched;
    focus_only(false);
    S.spawn(N + (foreign ? 1 : 0), [&](int id) {
        if (id == N) { foreign(); return; }
        arena.execute([&] {
            if (id == 0) {
                try { scenario(); } catch (...) { TR.emit("{\"e\":\"Escaped\"}"); }
                helpers_wc.release();
            } else {
                tbb::detail::d1::wait(helpers_wc, *hctx[id]);
            }
        });
    });
    int rc = S.run_random(seed, maxsteps, den);
    if (log_sched) TR.sched(S.sched_log);
    if (rc != RC_OK) TR.emit("{\"e\":\"Stuck\",\"rc\":\"%s\"}", rc_name(rc).c_str());
    long st = S.steps;
    S.join_all();
    if (rc == RC_OK) for (auto c : hctx) delete c;
    return {rc, st};
}

// One execution in a forked child that writes its events straight into the parent's trace file (shared descriptor, line buffered): a crash or hang of the code
// under test becomes a Crash / Stuck event of that execution instead of taking the harness down.  The result travels back through shared memory.
inline Result isolated_run(int watchdog_s, const std::function<Result()>& fn) {
    static Result* shared = (Result*)mmap(nullptr, sizeof(Result), PROT_READ | PROT_WRITE, MAP_SHARED | MAP_ANONYMOUS, -1, 0);
    shared->rc = -1; shared->steps = 0;
    if (TR.f) fflush(TR.f);
    fflush(nullptr);
    pid_t pid = fork();
    if (pid == 0) {
        alarm(watchdog_s); if (TR.f) setvbuf(TR.f, nullptr, _IOLBF, 0);
        std::set_terminate([] { TR.emit("{\"e\":\"Terminate\"}"); if (TR.f) fflush(TR.f); _exit(0); });
        Result r = fn(); *shared = r; if (TR.f) fflush(TR.f); _exit(0);
    }
    int status = 0; waitpid(pid, &status, 0);
    if (TR.f) fseek(TR.f, 0, SEEK_END);
    if (WIFSIGNALED(status)) { if (WTERMSIG(status) == SIGALRM) TR.emit("{\"e\":\"Stuck\",\"rc\":\"watchdog\"}"); else TR.emit("{\"e\":\"Crash\",\"sig\":%d}", WTERMSIG(status)); return {1, shared->steps}; }
    return *shared;
}

// Forked execution of one case with a watchdog: crash / hang / std::terminate become events appended by the parent.
// With `chunk_var` (the address of the caller's loop variable that selects the chunk) the children are forked from a ZYGOTE - a copy of this process taken at the
// first call that never does anything but fork - so that every chunk starts from the same memory image whichever chunks ran before it (the parent's heap changes
// while it copies the children's output; TBB seeds RNGs from addresses).  A chunk can then be re-run alone (VERIF_ONLY) and behaves exactly as in the full run.
template <class Fn> inline int forked_case(const char* tmpfile, FILE* out, bool& first, int watchdog_s, Fn fn, int* chunk_var = nullptr) {
    auto child_main = [&] {
        alarm(watchdog_s);
        TR.open(tmpfile); setvbuf(TR.f, nullptr, _IOLBF, 0);
        std::set_terminate([] { TR.emit("{\"e\":\"Terminate\"}"); TR.close(); _exit(0); });
        fn();
        TR.close(); _exit(0);
    };
    int status = 0;
    if (chunk_var) {
        static int to_z[2] = {-1, -1}, from_z[2] = {-1, -1}; static pid_t zygote = -1;
        if (zygote < 0) {
            if (pipe(to_z) || pipe(from_z)) { perror("pipe"); exit(2); }
            fflush(nullptr);
            zygote = fork();
            if (zygote == 0) {
                close(to_z[1]); close(from_z[0]);
                for (;;) { int v; ssize_t n = read(to_z[0], &v, sizeof v); if (n != (ssize_t)sizeof v) _exit(0);
                    *chunk_var = v;
                    pid_t c = fork(); if (c == 0) { close(to_z[0]); close(from_z[1]); child_main(); }
                    int stt = 0; waitpid(c, &stt, 0); if (write(from_z[1], &stt, sizeof stt) != (ssize_t)sizeof stt) _exit(0); }
            }
            close(to_z[0]); close(from_z[1]);
        }
        int v = *chunk_var;
        if (write(to_z[1], &v, sizeof v) != (ssize_t)sizeof v || read(from_z[0], &status, sizeof status) != (ssize_t)sizeof status) { fprintf(stderr, "zygote died\n"); exit(2); }
    } else {
        pid_t pid = fork();
        if (pid == 0) child_main();
        waitpid(pid, &status, 0);
    }
    std::ifstream in(tmpfile); std::string line; bool any = false;
    while (std::getline(in, line)) { if (line.empty() || line.back() != '}') continue;   /* a killed child may leave a partial last line */
        if (!any && !first && line.find("\"Reset\"") == std::string::npos) fputs("{\"e\":\"Reset\"}\n", out); any = true; first = false; fputs(line.c_str(), out); fputc('\n', out); }
    if (WIFSIGNALED(status)) fprintf(out, WTERMSIG(status) == SIGALRM ? "{\"e\":\"Stuck\",\"rc\":\"watchdog\"}\n" : "{\"e\":\"Crash\",\"sig\":%d}\n", WTERMSIG(status));
    unlink(tmpfile);
    return WIFSIGNALED(status) ? 1 : 0;
}
}
#define VS_DEFINE_GLOBALS namespace vs { vh::TraceOut TR; Faults F; long g_obj_ctor = 0, g_obj_dtor = 0, g_next_obj = 0; tbb::task_arena* cur_arena = nullptr; }
