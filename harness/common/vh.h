// Common helpers for harnesses (compiled WITH the prelude).
#pragma once
#include "cosched.h"
#include <cstdio>
#include <cstdarg>
#include <cstring>
#include <string>
#include <vector>
#include <sstream>
#include <fstream>
#include <map>
#include <set>
#include <chrono>

namespace vh {
// read an instrumented atomic without creating a schedule point
template <class T> inline T rawload(const std::atomic<T>& a) { return ((const verif::real_atomic<T>&)a).load(); }
template <class T> inline void rawstore(std::atomic<T>& a, T v) { ((verif::real_atomic<T>&)a).store(v); }

// ndjson property-level trace writer.  Executions are separated by {"e":"Reset"} lines.
struct TraceOut {
    FILE* f = nullptr; long execs = 0, events = 0; bool first = true;
    bool open(const char* path) { f = fopen(path, "w"); return f != nullptr; }
    void begin_exec() { if (!f) return; if (!first) fputs("{\"e\":\"Reset\"}\n", f); first = false; ++execs; }
    void emit(const char* fmt, ...) __attribute__((format(printf, 2, 3))) {
        if (!f) return; va_list ap; va_start(ap, fmt); vfprintf(f, fmt, ap); va_end(ap); fputc('\n', f); ++events;
    }
    // the granted-step sequence of the execution (thread ids; -(t+1) = store-buffer drain): kept out of the validation, used for replay
    // (a cut-off run has millions of steps: only its length and its last 4000 decisions are kept - the run is reproduced from its seed, not from this record)
    void sched(const std::vector<int>& log) { if (!f) return; size_t from = log.size() > 2000000 ? log.size() - 4000 : 0;
        if (from) fprintf(f, "{\"e\":\"#sched\",\"len\":%zu,\"tail\":\"", log.size()); else fputs("{\"e\":\"#sched\",\"s\":\"", f);
        for (size_t i = from; i < log.size(); i++) fprintf(f, i > from ? " %d" : "%d", log[i]); fputs("\"}\n", f); }
    void close() { if (f) fclose(f); f = nullptr; }
};

struct Tok { int t; std::string ts; std::string label; std::string state; };
inline std::vector<Tok> parse_schedule(const std::string& line) {
    std::vector<Tok> r; std::istringstream ss(line); std::string tok;
    while (ss >> tok) {
        size_t c1 = tok.find(':'), c2 = tok.find(':', c1 + 1);
        Tok k; k.ts = tok.substr(0, c1); k.t = atoi(k.ts.c_str()); k.label = tok.substr(c1 + 1, c2 - c1 - 1); k.state = c2 == std::string::npos ? "" : tok.substr(c2 + 1);
        r.push_back(k);
    }
    return r;
}
inline std::vector<std::string> split(const std::string& s, char sep) {
    std::vector<std::string> r; std::istringstream ss(s); std::string x; while (std::getline(ss, x, sep)) r.push_back(x); return r;
}
struct Timer { std::chrono::steady_clock::time_point t0 = std::chrono::steady_clock::now(); double s() const { return std::chrono::duration<double>(std::chrono::steady_clock::now() - t0).count(); } };
inline const char* arg(int argc, char** argv, const char* name, const char* def = nullptr) {
    for (int i = 1; i + 1 < argc; i++) if (!strcmp(argv[i], name)) return argv[i + 1];
    return def;
}
inline bool flag(int argc, char** argv, const char* name) { for (int i = 1; i < argc; i++) if (!strcmp(argv[i], name)) return true; return false; }
}
