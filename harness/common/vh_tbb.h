// TBB-internal glue for white-box harnesses linked against the instrumented static src/tbb objects.
#pragma once
#include "oneapi/tbb/task_arena.h"
#include "oneapi/tbb/task_group.h"
#include "tbb/governor.h"
#include "tbb/thread_data.h"
#include "tbb/arena.h"
#include "vh.h"
namespace vh {
// run TBB's per-thread clean-up while the logical thread is still under scheduler control (DESIGN 2.3)
inline void install_tbb_thread_exit() {
    cosched::thread_exit_hook = [] { tbb::detail::r1::governor::terminate_external_thread(); };
}
}
// installed for every harness that uses the scheduler: without it the per-thread clean-up of TBB (unregistering from the cancellation list under a sleeping
// mutex, releasing the arena slot ...) would run in the pthread key destructor of the exiting real thread, i.e. outside scheduler control and concurrently
// with the logical threads that are still running
namespace { struct InstallTbbThreadExit { InstallTbbThreadExit() { vh::install_tbb_thread_exit(); } } g_install_tbb_thread_exit; }

