// C08 harness: drives the REAL oneTBB locks along TLC-generated schedules (replay) or seeded random cooperative
// schedules (random), compares the projected concrete state with the protocol spec after every step, and records
// property-level events (Acq/Rel/UpB/UpE/DnB/DnE/TryFail/Enq/Stuck) for validation against RWLockAbs.
//
//   h_locks <lock> replay <schedules> <trace-out> <map-file> prog1 prog2 ...
//   h_locks <lock> random <nseeds> <seed0> <trace-out> prog1 prog2 ...
// lock in: spin_mutex queuing_mutex mutex spin_rw_mutex queuing_rw_mutex rw_mutex speculative_spin_mutex speculative_spin_rw_mutex
// program = comma separated ops: lock,try_lock,lock_shared,try_lock_shared,upgrade,downgrade,rel
#include "oneapi/tbb/spin_mutex.h"
#include "oneapi/tbb/spin_rw_mutex.h"
#include "oneapi/tbb/queuing_mutex.h"
#include "oneapi/tbb/queuing_rw_mutex.h"
#include "oneapi/tbb/mutex.h"
#include "oneapi/tbb/rw_mutex.h"
#include "vh.h"
using namespace cosched;
using vh::rawload;

static int N;
static std::vector<std::vector<std::string>> PROG;
static vh::TraceOut TR;
static long g_data;                        // plain counter bumped in writer sections (visibility clause)

struct ThreadCtx { char held = 'N'; };

// ---------------------------------------------------------------------------------------------- adapters
template <class M, bool RW, bool SCOPED> struct Ad;

// direct API, exclusive only
template <class M> struct Ad<M, false, false> {
    M* m; std::vector<ThreadCtx> c;
    void init(int n) { m = new M; c.assign(n, ThreadCtx()); }
    void fini() { delete m; }
    void lockW(int) { m->lock(); } bool tryW(int) { return m->try_lock(); }
    void lockR(int t) { lockW(t); } bool tryR(int t) { return tryW(t); }
    void rel(int, char) { m->unlock(); }
    bool up(int) { return true; } void down(int) {}
    static constexpr bool rw = false;
};
// spin_rw_mutex: direct API incl. protected upgrade/downgrade
template <> struct Ad<tbb::spin_rw_mutex, true, false> {
    typedef tbb::spin_rw_mutex M; M* m; std::vector<ThreadCtx> c;
    void init(int n) { m = new M; c.assign(n, ThreadCtx()); }
    void fini() { delete m; }
    void lockW(int) { m->lock(); } bool tryW(int) { return m->try_lock(); }
    void lockR(int) { m->lock_shared(); } bool tryR(int) { return m->try_lock_shared(); }
    void rel(int, char h) { if (h == 'W') m->unlock(); else m->unlock_shared(); }
    bool up(int) { return m->upgrade(); } void down(int) { m->downgrade(); }
    static constexpr bool rw = true;
};
// scoped_lock API, exclusive only (queuing_mutex)
template <class M> struct Ad<M, false, true> {
    typedef typename M::scoped_lock SL; M* m; std::vector<SL*> sl;
    void init(int n) { m = new M; sl.clear(); for (int i = 0; i < n; i++) sl.push_back(new SL); }
    void fini() { for (auto p : sl) delete p; delete m; }
    void lockW(int t) { sl[t]->acquire(*m); } bool tryW(int t) { return sl[t]->try_acquire(*m); }
    void lockR(int t) { lockW(t); } bool tryR(int t) { return tryW(t); }
    void rel(int t, char) { sl[t]->release(); }
    bool up(int) { return true; } void down(int) {}
    static constexpr bool rw = false;
};
// scoped_lock API, reader-writer (queuing_rw_mutex, rw_mutex, speculative_spin_rw_mutex)
template <class M> struct Ad<M, true, true> {
    typedef typename M::scoped_lock SL; M* m; std::vector<SL*> sl;
    void init(int n) { m = new M; sl.clear(); for (int i = 0; i < n; i++) sl.push_back(new SL); }
    void fini() { for (auto p : sl) delete p; delete m; }
    void lockW(int t) { sl[t]->acquire(*m, true); } bool tryW(int t) { return sl[t]->try_acquire(*m, true); }
    void lockR(int t) { sl[t]->acquire(*m, false); } bool tryR(int t) { return sl[t]->try_acquire(*m, false); }
    void rel(int t, char) { sl[t]->release(); }
    bool up(int t) { return sl[t]->upgrade_to_writer(); } void down(int t) { sl[t]->downgrade_to_reader(); }
    static constexpr bool rw = true;
};

// ---------------------------------------------------------------------------------------------- projections
template <class A> struct Proj { static void track_all(A&) {} static std::string get(A&) { return ""; } static bool is_enq(A&, const Pending&) { return false; } };
typedef Ad<tbb::spin_mutex, false, false> AdSpin;
typedef Ad<tbb::spin_rw_mutex, true, false> AdSpinRW;
typedef Ad<tbb::queuing_mutex, false, true> AdQM;
typedef Ad<tbb::queuing_rw_mutex, true, true> AdQRW;
typedef Ad<tbb::mutex, false, false> AdMutex;
typedef Ad<tbb::rw_mutex, true, true> AdRWM;
typedef Ad<tbb::speculative_spin_mutex, false, true> AdSpecSpin;
typedef Ad<tbb::speculative_spin_rw_mutex, true, true> AdSpecRW;

template <> struct Proj<AdSpin> {
    static void track_all(AdSpin& a) { track(&a.m->m_flag); }
    static std::string get(AdSpin& a) { return rawload(a.m->m_flag) ? "1" : "0"; }
    static bool is_enq(AdSpin&, const Pending&) { return false; }
};
template <> struct Proj<AdSpinRW> {
    static void track_all(AdSpinRW& a) { track(&a.m->m_state); }
    static std::string get(AdSpinRW& a) { return std::to_string((long)rawload(a.m->m_state)); }
    static bool is_enq(AdSpinRW&, const Pending&) { return false; }
};
template <> struct Proj<AdQM> {
    static void track_all(AdQM& a) { track(&a.m->q_tail); for (auto p : a.sl) { track(&p->m_next); track(&p->m_going); } }
    static int id(AdQM& a, const void* p) { if (!p) return 0; for (size_t i = 0; i < a.sl.size(); i++) if (a.sl[i] == p) return (int)i + 1; return -1; }
    static std::string get(AdQM& a) {   // tail, next[1..N], going[1..N]
        std::ostringstream o; o << id(a, rawload(a.m->q_tail));
        for (auto p : a.sl) o << "," << id(a, rawload(p->m_next));
        for (auto p : a.sl) o << "," << (int)rawload(p->m_going);
        return o.str();
    }
    static bool is_enq(AdQM& a, const Pending& p) { return p.addr == (const void*)&a.m->q_tail && p.kind == K_RMW; }
};
template <> struct Proj<AdQRW> {
    static void track_all(AdQRW& a) { track(&a.m->q_tail); for (auto p : a.sl) { track(&p->my_prev); track(&p->my_next); track(&p->my_state); track(&p->my_going); track(&p->my_internal_lock); } }
    static int id(AdQRW& a, std::uintptr_t v) { v &= ~std::uintptr_t(1); if (!v) return 0; for (size_t i = 0; i < a.sl.size(); i++) if ((std::uintptr_t)a.sl[i] == v) return (int)i + 1; return -1; }
    static std::string get(AdQRW& a) {  // tailp,tailf,prevp[],prevf[],nextp[],nextf[],st[],going[],il[]
        std::ostringstream o; std::uintptr_t q = (std::uintptr_t)rawload(a.m->q_tail);
        o << id(a, q) << "," << (q & 1);
        for (auto p : a.sl) o << "," << id(a, (std::uintptr_t)rawload(p->my_prev));
        for (auto p : a.sl) o << "," << ((std::uintptr_t)rawload(p->my_prev) & 1);
        for (auto p : a.sl) o << "," << id(a, (std::uintptr_t)rawload(p->my_next));
        for (auto p : a.sl) o << "," << ((std::uintptr_t)rawload(p->my_next) & 1);
        for (auto p : a.sl) o << "," << (int)rawload(p->my_state);
        for (auto p : a.sl) o << "," << (int)rawload(p->my_going);
        for (auto p : a.sl) o << "," << (int)rawload(p->my_internal_lock);
        return o.str();
    }
    static bool is_enq(AdQRW& a, const Pending& p) { return p.addr == (const void*)&a.m->q_tail && p.kind == K_RMW; }
};
// queuing locks: the release-build constructor leaves node fields as they were; zero them like the spec's initial state
template <class A> static void zero_nodes(A&) {}
template <> void zero_nodes<AdQRW>(AdQRW& a) {
    for (auto p : a.sl) { vh::rawstore(p->my_prev, decltype(rawload(p->my_prev))(0)); vh::rawstore(p->my_next, decltype(rawload(p->my_next))(0));
        vh::rawstore(p->my_state, decltype(rawload(p->my_state))(0)); vh::rawstore(p->my_going, decltype(rawload(p->my_going))(0)); vh::rawstore(p->my_internal_lock, decltype(rawload(p->my_internal_lock))(0)); }
}

// ---------------------------------------------------------------------------------------------- thread body
// one operation of a thread's program; false if the operation does not apply (nothing held / already held) and is skipped
template <class A> static void one_op(A& a, int t, const std::string& op, char& h) {
    int T = t + 1;
    if (op == "lock" || op == "try_lock" || op == "lock_shared" || op == "try_lock_shared") {
        if (h != 'N') return;
        bool w = (op == "lock" || op == "try_lock") || !A::rw; bool ok = true;
        if (op == "lock") a.lockW(t); else if (op == "lock_shared") a.lockR(t);
        else if (op == "try_lock") ok = a.tryW(t); else ok = a.tryR(t);
        if (ok) { long d = g_data; if (w) g_data = d + 1; h = w ? 'W' : 'R'; TR.emit("{\"e\":\"Acq\",\"t\":%d,\"m\":\"%c\",\"d\":%ld}", T, h, d); }
        else TR.emit("{\"e\":\"TryFail\",\"t\":%d}", T);
    } else if (op == "upgrade") {
        if (h != 'R' || !A::rw) return;
        TR.emit("{\"e\":\"UpB\",\"t\":%d}", T);
        bool ok = a.up(t);
        long d = g_data; g_data = d + 1; h = 'W';
        TR.emit("{\"e\":\"UpE\",\"t\":%d,\"ok\":%d,\"d\":%ld}", T, ok ? 1 : 0, d);
    } else if (op == "downgrade") {
        if (h != 'W' || !A::rw) return;
        TR.emit("{\"e\":\"DnB\",\"t\":%d}", T);
        a.down(t); h = 'R';
        TR.emit("{\"e\":\"DnE\",\"t\":%d}", T);
    } else { // rel
        if (h == 'N') return;
        TR.emit("{\"e\":\"Rel\",\"t\":%d}", T);
        char hh = h; h = 'N';
        a.rel(t, hh);
    }
}
// Every operation ends in a harness-level schedule point (the specs' local step that ends an operation): a lock that has been acquired is HELD across
// at least one schedule point, so that another thread's acquisition can be scheduled - and logged - between Acq and Rel.  Without it the logged critical
// sections are empty (Acq is logged after the acquiring access, Rel before the releasing one) and no interleaving can show two holders.
template <class A> static void body(A& a, int t, std::vector<char>& held) {
    for (auto& op : PROG[t]) { one_op(a, t, op, held[t]); yield_point(); }
}

struct Stats { long paths = 0, steps = 0, drift = 0, mismatch = 0, stuck = 0, untracked = 0; };

template <class A> static int run(int argc, char** argv) {
    std::string mode = argv[2];
    Stats st; vh::Timer tm;
    if (mode == "replay") {
        std::ifstream in(argv[3]); TR.open(argv[4]);
        // map file: "<label> <naccess>" or "<label>@<op> <naccess>"; default 1
        std::map<std::string, int> nacc; { std::ifstream mf(argv[5]); std::string k; int v; while (mf >> k >> v) nacc[k] = v; }
        for (int i = 6; i < argc; i++) PROG.push_back(vh::split(argv[i], ','));
        N = (int)PROG.size();
        std::string opend = nacc.count("OPEND:Fin2") ? "Fin2" : "Fin";     // the label that ends an operation in this spec (one harness yield)
        std::string line; int shown = 0;
        while (std::getline(in, line) && st.stuck < 10) {   // 10 stuck executions are evidence enough; do not burn the budget
            A a; a.init(N); zero_nodes(a); g_data = 0;
            untrack_all(); Proj<A>::track_all(a); focus_only(true); g_untracked = 0;
            std::vector<char> held(N, 'N');
            TR.begin_exec();
            Sched S; S.stall_limit = 3000;
            S.spawn(N, [&](int t) { body(a, t, held); });
            ++st.paths; bool drifted = false;
            std::vector<int> opi(N, 0);
            for (auto& tok : vh::parse_schedule(line)) {
                int t = tok.t - 1;
                if (t < 0 || t >= N) continue;
                const std::string& op = opi[t] < (int)PROG[t].size() ? PROG[t][opi[t]] : PROG[t].back();
                int na = 1; auto it = nacc.find(tok.label + "@" + op); if (it == nacc.end()) it = nacc.find(tok.label); if (it != nacc.end()) na = it->second;
                if (tok.label == opend) opi[t]++;
                for (int k = 0; k < na; k++) {
                    if (!S.runnable(t)) { if (!drifted) { ++st.drift; drifted = true; if (shown++ < 5) fprintf(stderr, "SPEC-DRIFT path %ld: thread %d not runnable at %s\n", st.paths, tok.t, tok.label.c_str()); } break; }
                    bool enq = Proj<A>::is_enq(a, S.pending(t));
                    // the queue entry is logged before the step is granted: the thread may acquire and log Acq within the same step
                    if (enq) TR.emit("{\"e\":\"Enq\",\"t\":%d,\"m\":\"%s\"}", tok.t, (op == "lock_shared" && A::rw) ? "R" : "W");
                    S.step(t); ++st.steps;
                }
                if (!drifted && !tok.state.empty()) {
                    std::string real = Proj<A>::get(a);
                    if (real != tok.state) { ++st.mismatch; drifted = true; if (shown++ < 5) fprintf(stderr, "SPEC-DRIFT path %ld at %d:%s expected %s real %s\n", st.paths, tok.t, tok.label.c_str(), tok.state.c_str(), real.c_str()); }
                }
            }
            int rc = S.finish(200000);
            if (rc != RC_OK) { ++st.stuck; TR.emit("{\"e\":\"Stuck\",\"rc\":\"%s\"}", rc_name(rc).c_str()); }
            st.untracked += g_untracked;
            S.join_all();
            if (rc == RC_OK) a.fini();
        }
    } else { // random
        int nseeds = atoi(argv[3]); unsigned long seed0 = strtoul(argv[4], nullptr, 10); TR.open(argv[5]);
        for (int i = 6; i < argc; i++) PROG.push_back(vh::split(argv[i], ','));
        N = (int)PROG.size();
        focus_only(false);
        for (int r = 0; r < nseeds && st.stuck < 10; r++) {
            A a; a.init(N); zero_nodes(a); g_data = 0;
            std::vector<char> held(N, 'N');
            TR.begin_exec();
            Sched S; S.stall_limit = 20000;
            S.spawn(N, [&](int t) { body(a, t, held); });
            static const int dens[8] = {1, 3, 10, 40, -1, -2, -3, -5};
            int rc = S.run_random(seed0 + r, 2000000, dens[r % 8]);
            ++st.paths; st.steps += S.steps;
            if (rc != RC_OK) { ++st.stuck; TR.emit("{\"e\":\"Stuck\",\"rc\":\"%s\",\"seed\":%lu}", rc_name(rc).c_str(), seed0 + r); }
            S.join_all();
            if (rc == RC_OK) a.fini();
        }
    }
    TR.close();
    printf("{\"paths\":%ld,\"steps\":%ld,\"drift\":%ld,\"state_mismatch\":%ld,\"stuck\":%ld,\"untracked_hooks\":%ld,\"events\":%ld,\"wall\":%.2f}\n",
           st.paths, st.steps, st.drift, st.mismatch, st.stuck, st.untracked, TR.events, tm.s());
    return 0;
}

// probe_unlock: facts about the RELEASING side of the sleeping locks, extracted from the running code (DESIGN 2.6).  tbb::mutex / tbb::rw_mutex wake their
// sleepers with notify_*_relaxed(), which reads the wait-set without a fence of its own: the protocol (Monitor.tla instantiated with FENCE_N = FALSE) is only
// correct under TSO if the releasing write to the lock word is itself a full operation (an RMW / CAS / seq_cst store, or a full fence before the wait-set is
// read) - constant CLIENT_SC.  Each releasing operation is run alone on a logical thread and its access sequence is inspected.
template <class F> static int releasing_write_is_full(const void* lo, size_t len, F op) {
    struct Ev { int kind, order; const void* addr; }; std::vector<Ev> evs;
    Sched S; focus_only(false);
    S.spawn(1, [&](int) { yield_point(); op(); yield_point(); });
    while (!S.done(0)) { Pending p = S.pending(0); evs.push_back({p.kind, p.order, p.addr}); S.step(0); }
    S.join_all();
    auto inside = [&](const void* a) { return (const char*)a >= (const char*)lo && (const char*)a < (const char*)lo + len; };
    bool written = false; int verdict = -1;
    for (auto& e : evs) {
        bool full = (e.kind == K_FENCE && e.order == (int)std::memory_order_seq_cst) || e.kind == K_RMW || e.kind == K_CAS || (e.kind == K_STORE && e.order == (int)std::memory_order_seq_cst);
        if (!written) { if (inside(e.addr) && (e.kind == K_STORE || e.kind == K_RMW || e.kind == K_CAS)) { written = true; if (full) { verdict = 1; break; } } continue; }
        if (full) { verdict = 1; break; }
        if (e.kind == K_LOAD && !inside(e.addr)) { verdict = 0; break; }       // the wait-set is read with the releasing store possibly still buffered
    }
    if (written && verdict < 0) verdict = 0;
    return verdict;     // -1: no releasing write seen (inconclusive)
}
static int probe_unlock() {
    int f_mutex, f_rw_unlock, f_rw_unlock_shared, f_rw_downgrade;
    { tbb::mutex m; m.lock(); f_mutex = releasing_write_is_full(&m, sizeof m, [&] { m.unlock(); }); }
    { tbb::rw_mutex m; m.lock(); f_rw_unlock = releasing_write_is_full(&m, sizeof m, [&] { m.unlock(); }); }
    { tbb::rw_mutex m; m.lock_shared(); f_rw_unlock_shared = releasing_write_is_full(&m, sizeof m, [&] { m.unlock_shared(); }); }
    { tbb::rw_mutex m; tbb::rw_mutex::scoped_lock sl(m, true); f_rw_downgrade = releasing_write_is_full(&m, sizeof m, [&] { sl.downgrade_to_reader(); }); }
    printf("{\"mutex_unlock_full\":%d,\"rw_unlock_full\":%d,\"rw_unlock_shared_full\":%d,\"rw_downgrade_full\":%d}\n", f_mutex, f_rw_unlock, f_rw_unlock_shared, f_rw_downgrade);
    return 0;
}

int main(int argc, char** argv) {
    if (argc >= 2 && !strcmp(argv[1], "probe_unlock")) return probe_unlock();
    if (argc < 6) { fprintf(stderr, "usage\n"); return 2; }
    std::string lk = argv[1];
    if (lk == "spin_mutex") return run<AdSpin>(argc, argv);
    if (lk == "spin_rw_mutex") return run<AdSpinRW>(argc, argv);
    if (lk == "queuing_mutex") return run<AdQM>(argc, argv);
    if (lk == "queuing_rw_mutex") return run<AdQRW>(argc, argv);
    if (lk == "mutex") return run<AdMutex>(argc, argv);
    if (lk == "rw_mutex") return run<AdRWM>(argc, argv);
    if (lk == "speculative_spin_mutex") return run<AdSpecSpin>(argc, argv);
    if (lk == "speculative_spin_rw_mutex") return run<AdSpecRW>(argc, argv);
    fprintf(stderr, "unknown lock %s\n", lk.c_str()); return 2;
}
