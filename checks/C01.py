# C01 - every submitted task runs exactly once; a wait covers all of its work.
#   protocol specs (TLC): TaskPool (arena_slot spawn / get_task / steal_task incl. pool relocation), Mailbox (task_proxy two-sided claim),
#                         WaitTree (wait_context / reference_vertex forwarding), PoolState (no lost enqueued task)
#   binding 1: every edge of the TaskPool state graph is replayed on a real arena_slot, (head, tail, lock word) compared per step
#   binding 2: Spawn/Got events of the replays (TraceTaskPool) and Submit/Begin/End/WaitRet events of integrated scenarios on 2-4 logical
#              threads (nested groups, tasks submitting tasks, enqueued / deferred handles, run_and_wait, execute) are validated by TLC.
import os, re, json, vlib, schedlib
SD = schedlib.SD


def run(res, tier, seed):
    thorough = tier != 'quick'
    exe = vlib.build_harness('h_taskpool', ['sched/h_taskpool.cpp'])
    for mod, cfg in [('Mailbox', 'Mailbox_2.cfg'), ('MCw', 'WaitTree_5.cfg'), ('MCp', 'PoolState_2x2.cfg')] + ([('MCTaskPool', 'TaskPool_s2.cfg')] if thorough else []) + [('MCTaskPoolIso', 'TaskPoolIso_i2.cfg')]:
        vlib.model_check(res, SD, mod, cfg, deadlock=False, timeout=1500)
    # PoolState is instantiated with facts observed on the running code: a publisher aborts a clear transaction in flight, and an aborted transaction fails
    schedlib.publish_fact_check(res, vlib.build_harness('h_wake', ['sync/h_wake.cpp']), ('enqueue_aborts_clear', 'clear_checked'))
    drift = 0; ec = et = 0
    # (model, cfg, owner program, steals per thief, isolation tags of the tasks / of the thieves)
    replays = [('MCTaskPool', 'TaskPool_s1.cfg', '1,2,-1,3,-1,-1', '1', None), ('MCTaskPool', 'TaskPool_s3.cfg', '1,2,3,-1,-1', '1', None),      # s3: the third spawn relocates the pool (prepare_task_pool) while thieves are around
                ('MCTaskPoolIso', 'TaskPoolIso_i1.cfg', '1,2,-2,-1,-1', '1', ('1,0,1', '0,0'))]
    if thorough:
        replays += [('MCTaskPool', 'TaskPool_p2.cfg', '1,-1,2,3,-1,-1,-1', '1', None), ('MCTaskPoolIso', 'TaskPoolIso_i2.cfg', '1,2,3,-2,-2,-1,-1', '1', ('1,0,1', '0,1'))]
    for mcmod, cfg, prog, nsteal, isoargs in replays:
        tag = 'c01-' + cfg[:-4]
        dot = os.path.join(vlib.BUILD, 'graphs', tag + '.dot'); os.makedirs(os.path.dirname(dot), exist_ok=True)
        r = vlib.tlc(SD, mcmod, cfg, dump=dot); res.add_tlc(r, mcmod + ':' + cfg); vlib.tlc_must_hold(r, tag)
        if r.violation:
            raise vlib.HarnessFailure('TaskPool model violates %s' % r.violation)
        nodes, edges, init = vlib.parse_dot(dot, ['head', 'tail', 'lock'], raw=True); os.unlink(dot)
        nodes = dict((k, ','.join(v.split('\x1f'))) for k, v in nodes.items())
        paths, cov, tot = vlib.edge_cover(nodes, edges, init)
        sched = os.path.join(vlib.BUILD, 'graphs', tag + '.sched'); vlib.write_schedules(paths, sched)
        sums, tfs = vlib.run_harness_parallel(lambda part, tf: [exe, part, tf, prog, nsteal] + (list(isoargs) if isoargs else []), sched, tag, timeout=900)
        s = vlib.sum_dicts(sums); drift += s['drift'] + s['state_mismatch']; ec += cov; et += tot
        vlib.validate_and_report(res, SD, 'TraceTaskPool', 'TraceTaskPool.cfg', vlib.collect_traces(tfs), tag,
                                 lambda tr: 'replay of TaskPool on the real arena_slot: a task id was returned twice or lost: ' + json.dumps([e for e in tr if not e['e'].startswith('#')]),
                                 sig_fn=lambda tr: 'taskpool:' + ('stuck' if any(e['e'] == 'Stuck' for e in tr) else 'dup-or-loss'))
        vlib.log('%s: %d states, %d/%d edges in %d schedules, %d real steps, drift %d, mismatch %d' % (tag, r.distinct, cov, tot, len(paths), s['steps'], s['drift'], s['state_mismatch']))
        os.unlink(sched)
    # affinity mail: every edge of Mailbox replayed on a real mail_outbox and real task_proxy objects
    # ---- critical-task stream: pop_specific (isolation tags, null place-holders, back accessor) replayed edge-complete on the real task_stream
    schedlib.replay_taskstream(res, 'C01', [('TaskStream_c.cfg', ['1', '1', '1', 'b', '7', '0', '1', '7'])] + ([('TaskStream_d.cfg', ['2', '1', '1', 'b', '7', '0', '2', '7'])] if thorough else []))
    mexe = vlib.build_harness('h_mailbox', ['sched/h_mailbox.cpp'])
    for cfg, np_ in [('Mailbox_2.cfg', '2')] + ([('Mailbox_3.cfg', '3')] if thorough else []):
        tag = 'c01-' + cfg[:-4]
        dot = os.path.join(vlib.BUILD, 'graphs', tag + '.dot')
        r = vlib.tlc(SD, 'Mailbox', cfg, dump=dot, deadlock=False); res.add_tlc(r, 'Mailbox:' + cfg + '(graph)'); vlib.tlc_must_hold(r, tag)
        if r.violation:
            raise vlib.HarnessFailure('Mailbox model violates %s' % r.violation)
        nodes, edges, init = vlib.parse_dot(dot, ['first', 'last', 'tat', 'nxt'], raw=True); os.unlink(dot)

        def conv(v):
            f = v.split('\x1f')
            return ','.join([f[0], f[1]] + re.findall(r'(none|both|pool|mail)', f[2]) + re.findall(r'\d+', f[3].replace('<<', '').replace('>>', '')))
        nodes = {k: conv(v) for k, v in nodes.items()}
        paths, cov, tot = vlib.edge_cover(nodes, edges, init)
        sched = os.path.join(vlib.BUILD, 'graphs', tag + '.sched'); vlib.write_schedules(paths, sched)
        sums, tfs = vlib.run_harness_parallel(lambda part, tf: [mexe, part, tf, np_], sched, tag, timeout=900)
        s = vlib.sum_dicts(sums); drift += s['drift'] + s['state_mismatch']; ec += cov; et += tot; os.unlink(sched)
        vlib.validate_and_report(res, SD, 'TraceMailbox', 'TraceMailbox.cfg', vlib.collect_traces(tfs), tag,
                                 lambda tr: 'replay of Mailbox on the real mail_outbox / task_proxy: a mailed task was claimed twice or never, or a proxy was freed twice / used after it was freed: ' + json.dumps([e for e in tr if not e['e'].startswith('#')]),
                                 sig_fn=lambda tr: 'mailbox:' + ('stuck' if any(e['e'] == 'Stuck' for e in tr) else 'claim-or-free'))
        vlib.log('%s: %d states, %d/%d edges in %d schedules, %d real steps, drift %d, mismatch %d' % (tag, r.distinct, cov, tot, len(paths), s['steps'], s['drift'], s['state_mismatch']))
    schedlib.run_scenarios(res, 'C01', 'c01', 40 if not thorough else 600, seed)
    res.extra.update({'spec_edges_replayed': ec, 'spec_edges_total': et, 'drift_steps': drift})
    res.exhaustive = (ec == et)
    res.assumptions += ['edge-complete replay for the TaskPool instance (1 owner: spawn,spawn,get,spawn,get,get; 2 thieves x 1 steal; real pool size 64 with head=tail=62 injected)',
                        'integrated scenarios: seeded random cooperative schedules on all-reserved arenas (no RML worker), sampled']
    if drift:
        print('SPEC-DRIFT property=C01 steps=%d' % drift)
