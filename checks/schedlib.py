# shared driver for integrated scheduler scenarios (h_sched) validated against SchedAbs
import os, json, vlib
SD = os.path.join(vlib.SPEC, 'sched')


def signature(tr):
    evs = [e for e in tr if not e['e'].startswith('#')]
    sc = next((e.get('name') for e in evs if e['e'] == 'Scenario'), '?')
    for e in evs:
        if e['e'] in ('Stuck', 'Crash', 'Escaped', 'Terminate'):
            return '%s:%s' % (sc, e['e'].lower())
    i = vlib.first_unexplained(SD, 'TraceSched', 'TraceSched.cfg', evs, 'sched')
    return '%s:first-unexplained=%s' % (sc, evs[i]['e'] if i is not None else '?')


def describe(tr):
    return 'recorded execution of the real scheduler is rejected by SchedAbs (%s): %s' % (signature(tr), json.dumps([e for e in tr if not e['e'].startswith('#')])[:1500])


def run_scenarios(res, pid, which, nseeds, seed, threads=(2, 3, 4)):
    exe = vlib.build_harness('h_sched', ['sched/h_sched.cpp'])
    os.makedirs(os.path.join(vlib.BUILD, 'traces'), exist_ok=True)
    cmds = []; tfs = []
    for k, n in enumerate(threads):
        for rep in range(2):
            tf = os.path.join(vlib.BUILD, 'traces', '%s-sched-%d-%d-%d.ndjson' % (pid, n, rep, os.getpid())); tfs.append(tf)
            cmds.append([exe, tf, which, str(nseeds), str(seed * 9001 + k * 131 + rep * 17), str(n)])
    ps = vlib.run_parallel(cmds, timeout=2500)
    nexec = 0; steps = 0; execs = []
    for pp, tf in zip(ps, tfs):
        if pp is None or pp.returncode != 0:
            raise vlib.HarnessFailure('h_sched failed: %s' % ((pp.stdout + pp.stderr)[-1500:] if pp else 'timeout'))
        s = json.loads([l for l in pp.stdout.splitlines() if l.startswith('{')][-1]); nexec += s['paths']; steps += s['steps']
        execs += vlib.collect_traces([tf])
    vlib.validate_and_report(res, SD, 'TraceSched', 'TraceSched.cfg', execs, pid.lower() + '-sched', describe, batch=150, sig_fn=signature,
                             group_fn=lambda t: next((e.get('name') for e in t if e['e'] == 'Scenario'), None))
    res.extra['integrated_executions'] = res.extra.get('integrated_executions', 0) + nexec
    res.extra['real_steps_executed'] = res.extra.get('real_steps_executed', 0) + steps
