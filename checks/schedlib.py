# shared driver for integrated scheduler scenarios (h_sched) validated against SchedAbs
import os, re, json, vlib
SD = os.path.join(vlib.SPEC, 'sched')


def signature(tr):
    evs = [e for e in tr if not e['e'].startswith('#')]
    sc = next((e.get('name') for e in evs if e['e'] == 'Scenario'), '?')
    for e in evs:
        if e['e'] in ('Stuck', 'Crash', 'Escaped', 'Terminate'):
            return '%s:%s' % (sc, e['e'].lower())
    i = vlib.first_unexplained(SD, 'TraceSched', 'TraceSched.cfg', evs, 'sched')
    return '%s:first-unexplained=%s' % (sc, evs[i]['e'] if i is not None else '?')


def describe(tr):
    return 'recorded execution of the real scheduler is rejected by SchedAbs (%s): %s' % (signature(tr), json.dumps([e for e in tr if not e['e'].startswith('#')])[:1500])


def run_scenarios(res, pid, which, nseeds, seed, threads=(2, 3, 4)):
    exe = vlib.build_harness('h_sched', ['sched/h_sched.cpp'])
    os.makedirs(os.path.join(vlib.BUILD, 'traces'), exist_ok=True)
    cmds = []; tfs = []
    for k, n in enumerate(threads):
        for rep in range(2):
            tf = os.path.join(vlib.BUILD, 'traces', '%s-sched-%d-%d-%d.ndjson' % (pid, n, rep, os.getpid())); tfs.append(tf)
            cmds.append([exe, tf, which, str(nseeds), str(seed * 9001 + k * 131 + rep * 17), str(n)])
    ps = vlib.run_parallel(cmds, timeout=2500)
    nexec = 0; steps = 0; execs = []
    for pp, tf in zip(ps, tfs):
        if pp is None or pp.returncode != 0:
            raise vlib.HarnessFailure('h_sched failed: %s' % ((pp.stdout + pp.stderr)[-1500:] if pp else 'timeout'))
        s = json.loads([l for l in pp.stdout.splitlines() if l.startswith('{')][-1]); nexec += s['paths']; steps += s['steps']
        execs += vlib.collect_traces([tf])
    vlib.validate_and_report(res, SD, 'TraceSched', 'TraceSched.cfg', execs, pid.lower() + '-sched', describe, batch=150, sig_fn=signature,
                             group_fn=lambda t: next((e.get('name') for e in t if e['e'] == 'Scenario'), None))
    res.extra['integrated_executions'] = res.extra.get('integrated_executions', 0) + nexec
    res.extra['real_steps_executed'] = res.extra.get('real_steps_executed', 0) + steps


def replay_taskstream(res, pid, cfgs):
    """every edge of the TaskStream state graph (cfg, harness args) replayed on the real task_stream: population word and lane mutex flags compared per step,
    Spawn / Got / End validated by TLC (TraceTaskPool)"""
    SDS = SD
    ts_exe = vlib.build_harness('h_taskstream', ['sched/h_taskstream.cpp'])
    for cfg, args in cfgs:
        tag = pid.lower() + '-' + cfg[:-4]
        os.makedirs(os.path.join(vlib.BUILD, 'graphs'), exist_ok=True)
        dot = os.path.join(vlib.BUILD, 'graphs', tag + '.dot')
        r = vlib.tlc(SDS, 'MCts', cfg, dump=dot, deadlock=False, timeout=3000, xmx='24g'); res.add_tlc(r, 'TaskStream:' + cfg); vlib.tlc_must_hold(r, cfg)
        if r.violation:
            raise vlib.HarnessFailure('TaskStream model violates %s' % r.violation)
        nodes, edges, init = vlib.parse_dot(dot, ['pop', 'mtx'], raw=True); os.unlink(dot)

        def conv(v):
            f = v.split('\x1f'); m = re.findall(r'(TRUE|FALSE)', f[1])
            return '%d,%d,%d' % (sum(1 << int(x) for x in re.findall(r'\d+', f[0])), m[0] == 'TRUE', m[1] == 'TRUE')
        nodes = {k: conv(v) for k, v in nodes.items()}
        paths, cov, tot = vlib.edge_cover(nodes, edges, init)
        sched = os.path.join(vlib.BUILD, 'graphs', tag + '.sched'); vlib.write_schedules(paths, sched)
        sums, tfs = vlib.run_harness_parallel(lambda part, tf: [ts_exe, part, tf] + args, sched, tag, timeout=2500)
        ssum = vlib.sum_dicts(sums); os.unlink(sched)
        vlib.validate_and_report(res, SDS, 'TraceTaskPool', 'TraceTaskPool.cfg', vlib.collect_traces(tfs), tag,
                                 lambda tr: 'replay of TaskStream on the real task_stream: an enqueued task was handed out twice or is stranded in a lane whose population bit is clear: ' + json.dumps([e for e in tr if not e['e'].startswith('#')]),
                                 sig_fn=lambda tr: 'taskstream:' + ('stuck' if any(e['e'] == 'Stuck' for e in tr) else 'dup-or-loss'))
        vlib.log('%s: %d states, %d/%d edges in %d schedules, %d real steps, drift %d, mismatch %d' % (tag, r.distinct, cov, tot, len(paths), ssum['steps'], ssum['drift'], ssum['state_mismatch']))
        res.extra['spec_edges_replayed'] = res.extra.get('spec_edges_replayed', 0) + cov; res.extra['spec_edges_total'] = res.extra.get('spec_edges_total', 0) + tot
        res.extra['drift_steps'] = res.extra.get('drift_steps', 0) + ssum['drift'] + ssum['state_mismatch']
        if ssum['drift'] + ssum['state_mismatch']:
            print('SPEC-DRIFT property=%s task_stream replay: %d paths disagree with TaskStream.tla' % (pid, ssum['drift'] + ssum['state_mismatch']))


def publish_fact_check(res, exe, which):
    """the publishers (task_arena::enqueue, task::resume) must abort a clear transaction of arena::my_pool_state that is in flight: the fact is probed by forcing a
    busy marker into the state word (h_wake probe_publish); if a publisher named in `which` does not, PoolState with PUBLISH_GUARDED = TRUE gives the verdict"""
    SDS = SD
    # the publishers (task_arena::enqueue, task::resume) must abort a clear transaction in flight: fact probed by forcing a busy marker into the state word
    p = vlib.sh([exe, 'probe_publish'], timeout=300)
    try:
        pf = json.loads([l for l in p.stdout.splitlines() if l.startswith('{')][-1])
    except Exception:
        raise vlib.HarnessFailure('publish probe failed: %s' % (p.stdout + p.stderr)[-1500:])
    if pf.get('rc') != 'ok' or pf['resume_aborts_clear'] not in (0, 1) or pf['enqueue_aborts_clear'] not in (0, 1):
        raise vlib.HarnessFailure('publish probe inconclusive: %s' % pf)
    res.extra.setdefault('code_facts', {}).update(pf)
    if 'clear_checked' in which:
        if pf.get('clear_checked') not in (0, 1):
            raise vlib.HarnessFailure('publish probe inconclusive: %s' % pf)
        if not pf['clear_checked']:
            r = vlib.model_check(res, SDS, 'MCp', 'PoolState_2x2_unchecked.cfg', must_hold=False, deadlock=False, timeout=1500)
            vlib.tlc_must_hold(r, 'PoolState_2x2_unchecked.cfg')
            if r.violation:
                res.violation('poolstate:model:unchecked-clear', 'a clear transaction of arena::my_pool_state / my_mandatory_concurrency (atomic_flag::try_clear_if) that a publisher has aborted (busy -> SET) clears '
                              'the flag all the same (observed on the running code: a test_and_set issued from inside the predicate does not make the transaction fail); with that fact the PoolState model '
                              'loses an enqueued task: the publisher is told that workers were already requested, the transaction completes, demand is withdrawn and the last thread leaves '
                              '(%s violated)' % r.violation, {'tlc_counterexample': vlib.extract_error_trace(r.out)[-40:], 'facts': pf})
        else:   # vacuity control: the final CAS is needed
            r = vlib.model_check(res, SDS, 'MCp', 'PoolState_2x2_unchecked.cfg', must_hold=False, deadlock=False, timeout=1500)
            if r.violation != 'NoLostTask':
                raise vlib.HarnessFailure('vacuity control failed: PoolState with an unchecked clear should lose a task')
        which = tuple(k for k in which if k != 'clear_checked')
    if not all(pf[k] for k in which):
        r = vlib.model_check(res, SDS, 'MCp', 'PoolState_2x2_guarded.cfg', must_hold=False, deadlock=False, timeout=1500)
        vlib.tlc_must_hold(r, 'PoolState_2x2_guarded.cfg')
        if r.violation:
            who = ' and '.join(n for n, k in (('task::resume', 'resume_aborts_clear'), ('task_arena::enqueue', 'enqueue_aborts_clear')) if not pf[k])
            res.violation('poolstate:model:guarded-publish', '%s publishes its task without aborting a clear transaction of arena::my_pool_state that is in flight (observed on the running code: a busy '
                          'marker forced into the state word survives the call); with that fact the PoolState model loses the task: the transaction completes, the arena is declared empty with the task '
                          'in the stream and the last thread leaves (%s violated)' % (who, r.violation), {'tlc_counterexample': vlib.extract_error_trace(r.out)[-40:], 'facts': pf})
