# C15 - flow graph buffering, ordering, joining and limiting nodes keep their contracts.
#   protocol spec (TLC): flow/Limiter (limiter_node critical sections: my_count / my_tries / my_future_decrement, reserve / consume on the predecessor,
#       early decrements, 2-3 concurrent forwarders: un-decremented forwarded messages <= threshold, FIFO, no duplicate)
#   function spec (TLC): flow/ItemBuffer (ring head / tail / capacity / per-slot state, growth with re-placement, reservation of the front, sequencer placement);
#       every transition of its state graph is replayed on the real reservable_item_buffer<int>, the whole ring compared after each operation, the
#       returned values validated by TLC against BufAbs (TraceBuf)
#   abstract spec: flow/FlowAbs ordering clauses (queue: real-time FIFO, sequencer: exactly 0,1,2,... , limiter: forwarded - decremented <= threshold,
#       joins: queueing / reserving: i-th tuple = i-th message of each port, key_matching: equal keys, each message used once, number of tuples);
#   real nodes fed by 3 external putters, observed at a serial sink, validated by TLC (TraceFlow).
import os, re, json, vlib, flowlib
SCEN = ['fifo', 'seq0', 'seq1', 'seq2', 'seq3', 'limit1', 'limit2', 'limitL1', 'limitL2', 'limitD2', 'limitD3', 'limitD2s', 'joinq', 'joinr', 'joink', 'joinkd', 'joinkd2', 'prio', 'reserve', 'reserve2', 'ow', 'wo', 'split', 'indexer']


def ring_schedules(cfg, tag):
    """ItemBuffer state graph -> edge-cover schedules whose tokens carry the operation, its result and the whole projected ring"""
    os.makedirs(os.path.join(vlib.BUILD, 'graphs'), exist_ok=True)
    dot = os.path.join(vlib.BUILD, 'graphs', tag + '.dot')
    r = vlib.tlc(flowlib.SD, 'ItemBuffer', cfg, dump=dot, deadlock=False)
    vlib.tlc_must_hold(r, cfg)
    if r.violation:
        raise vlib.HarnessFailure('ItemBuffer (%s) violates %s' % (cfg, r.violation))
    nodes, edges, init = vlib.parse_dot(dot, ['lastop', 'lastres', 'head', 'tail', 'cap', 'reserved', 'slot'], raw=True); os.unlink(dot)

    def conv(v):
        f = v.split('\x1f'); cells = re.findall(r'<<(\w+), (-?\d+)>>', f[6])
        return ','.join([f[0], f[1], f[2], f[3], f[4], '1' if f[5] == 'TRUE' else '0', '.'.join('n' if st == 'no' else ('h' if st == 'has' else 'r') + it for st, it in cells)])
    nodes = {k: conv(v) for k, v in nodes.items()}
    paths, cov, tot = vlib.edge_cover(nodes, edges, init)
    fn = os.path.join(vlib.BUILD, 'graphs', tag + '.sched')
    with open(fn, 'w') as f:
        for p in paths:
            f.write(' '.join(x[2] for x in p) + '\n')
    return fn, len(paths), cov, tot, r


def ring_replay(res, thorough):
    """every transition of ItemBuffer replayed on the real reservable_item_buffer<int>; results validated against BufAbs"""
    exe = vlib.build_harness('h_itembuf', ['flow/h_itembuf.cpp'])
    drift = 0; ec = et = 0
    for cfg, limit in (('ItemBuffer_q.cfg', None), ('ItemBuffer_s.cfg', None if thorough else 12000)):
        tag = 'c15-' + cfg[:-4]
        fn, npaths, cov, tot, r = ring_schedules(cfg, tag); res.add_tlc(r, 'ItemBuffer:' + cfg)
        tf = os.path.join(vlib.BUILD, 'traces', tag + '-%d.ndjson' % os.getpid())
        p = vlib.sh([exe, fn, tf], timeout=1500)
        if p.returncode != 0:
            raise vlib.HarnessFailure('h_itembuf failed: %s' % (p.stdout + p.stderr)[-1500:])
        s = json.loads(p.stdout.strip().splitlines()[-1]); drift += s['drift'] + s['state_mismatch']; ec += cov; et += tot
        for l in p.stderr.splitlines()[:4]:
            if l.startswith('SPEC-DRIFT'):
                print(l)
        execs = vlib.collect_traces([tf]); os.unlink(fn)
        if limit:       # the whole graph is replayed and compared; only a slice of the result traces goes through TLC in the quick tier (rejected-first: those that drifted)
            bad = [t for t in execs if any(e.get('ok') == 0 for e in t)]
            execs = bad[:200] + execs[:limit]
        vlib.validate_and_report(res, flowlib.SD, 'TraceBuf', 'TraceBuf.cfg', execs, tag,
                                 lambda tr: 'results returned by the real item_buffer along a behaviour of ItemBuffer.tla are rejected by BufAbs (an item lost, duplicated, reordered or refused): %s' % json.dumps(tr)[:1200],
                                 batch=6000, sig_fn=lambda tr, cfg=cfg: 'ring:%s' % cfg[:-4])
        vlib.log('%s: %d states, %d/%d edges in %d schedules, %d real operations, drift %d' % (tag, r.distinct, cov, tot, npaths, s['steps'], s['drift'] + s['state_mismatch']))
    res.extra.update({'ring_edges_replayed': ec, 'ring_edges_total': et, 'ring_drift': drift})
    if drift:
        print('SPEC-DRIFT property=C15 item_buffer replay: %d paths disagree with ItemBuffer.tla' % drift)


def run(res, tier, seed):
    thorough = tier != 'quick'
    ring_replay(res, thorough)
    for cfg in ['Limiter_1.cfg', 'Limiter_t1.cfg', 'Limiter_big.cfg', 'Limiter_d2.cfg', 'Limiter_d3.cfg']:
        vlib.model_check(res, flowlib.SD, 'Limiter', cfg, deadlock=False)
    flowlib.run_scenarios(res, 'C15', SCEN, 60 if not thorough else 2500, seed)
