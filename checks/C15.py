# C15 - flow graph buffering, ordering, joining and limiting nodes keep their contracts.
#   protocol spec (TLC): flow/Limiter (limiter_node critical sections: my_count / my_tries / my_future_decrement, reserve / consume on the predecessor,
#       early decrements, 2-3 concurrent forwarders: un-decremented forwarded messages <= threshold, FIFO, no duplicate)
#   abstract spec: flow/FlowAbs ordering clauses (queue: real-time FIFO, sequencer: exactly 0,1,2,... , limiter: forwarded - decremented <= threshold,
#       joins: queueing / reserving: i-th tuple = i-th message of each port, key_matching: equal keys, each message used once, number of tuples);
#   real nodes fed by 3 external putters, observed at a serial sink, validated by TLC (TraceFlow).
import os, vlib, flowlib
SCEN = ['fifo', 'seq0', 'seq1', 'seq2', 'seq3', 'limit1', 'limit2', 'limitL1', 'limitL2', 'joinq', 'joinr', 'joink', 'prio', 'reserve', 'ow', 'wo', 'split', 'indexer']


def run(res, tier, seed):
    thorough = tier != 'quick'
    for cfg in ['Limiter_1.cfg', 'Limiter_t1.cfg', 'Limiter_big.cfg']:
        vlib.model_check(res, flowlib.SD, 'Limiter', cfg, deadlock=False)
    flowlib.run_scenarios(res, 'C15', SCEN, 60 if not thorough else 2500, seed)
