# C07 - parallel_pipeline: ordered serial stages, bounded tokens, each item exactly once.
#   protocol spec: spec/algo/Pipeline.tla (stage tasks, input_buffer low/high tokens, parked ring + grow, token accounting, recycle)
#   abstract spec: spec/algo/PipeAbs.tla ; filter-body begin/end events of real parallel_pipeline runs (all mode strings up to length 3,
#   selected of length 4, token limits 1..3, 0..5 items, seed-derived stage delays) validated by TLC (TracePipe.tla).
import os, json, vlib
SD = os.path.join(vlib.SPEC, 'algo')


def signature(tr):
    evs = [e for e in tr if not e['e'].startswith('#')]
    p = next((e for e in evs if e['e'] == 'Pipe'), {})
    head = 'modes=%s:tokens=%s' % ('-'.join(p.get('modes', [])), p.get('tokens'))
    for e in evs:
        if e['e'] in ('Stuck', 'Crash', 'Escaped', 'Terminate'):
            return head + ':' + e['e'].lower()
    i = vlib.first_unexplained(SD, 'TracePipe', 'TracePipe.cfg', evs, 'c07')
    return head + ':first-unexplained=%s' % (('%s(f=%s)' % (evs[i]['e'], evs[i].get('f'))) if i is not None else '?')


def describe(tr):
    return 'filter events of the real parallel_pipeline are rejected by PipeAbs (%s): %s' % (signature(tr), json.dumps([e for e in tr if not e['e'].startswith('#')])[:1500])


def run(res, tier, seed):
    exe = vlib.build_harness('h_pipe', ['sched/h_pipe.cpp'])
    thorough = tier != 'quick'
    for c in ['M1', 'M2', 'M5', 'M6'] + (['M3', 'M4'] if thorough else []):
        vlib.model_check(res, SD, 'MCPipeline', 'Pipeline_%s.cfg' % c, timeout=1500)
    os.makedirs(os.path.join(vlib.BUILD, 'traces'), exist_ok=True)
    reps = 8; n = 1 if not thorough else 12
    cmds = []; tfs = []
    for r in range(reps):
        tf = os.path.join(vlib.BUILD, 'traces', 'c07-%d-%d.ndjson' % (r, os.getpid())); tfs.append(tf)
        cmds.append([exe, tf, str(n), str(seed * 8009 + r * 577), '4'])
    # gated plans on 8 logical threads, 10 tokens, 12 items: the parallel stage releases items in orders that make the ordered stage's token ring grow by jumps
    for r in range(3 if not thorough else 12):
        tf = os.path.join(vlib.BUILD, 'traces', 'c07-g%d-%d.ndjson' % (r, os.getpid())); tfs.append(tf)
        cmds.append([exe, tf, '3' if not thorough else '12', str(seed * 13 + r * 3), '0', '8', '10', '12'])
    ps = vlib.run_parallel(cmds, timeout=2500)
    nexec = 0; steps = 0; execs = []
    for pp, tf in zip(ps, tfs):
        if pp is None or pp.returncode != 0:
            raise vlib.HarnessFailure('h_pipe failed: %s' % ((pp.stdout + pp.stderr)[-1500:] if pp else 'timeout'))
        s = json.loads([l for l in pp.stdout.splitlines() if l.startswith('{')][-1]); nexec += s['paths']; steps += s['steps']
        execs += vlib.collect_traces([tf])
    vlib.validate_and_report(res, SD, 'TracePipe', 'TracePipe.cfg', execs, 'c07', describe, batch=200, sig_fn=signature,
                             group_fn=lambda t: next(('-'.join(e.get('modes', [])) for e in t if e['e'] == 'Pipe'), None))
    res.extra.update({'executions': nexec, 'real_steps_executed': steps, 'mode_strings': 45})
    res.exhaustive = False
    res.assumptions += ['arrival orders at serial stages come from seed-derived per-item stage delays and seeded random cooperative schedules (sampled)']
