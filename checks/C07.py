# C07 - parallel_pipeline: ordered serial stages, bounded tokens, each item exactly once.
#   protocol spec: spec/algo/Pipeline.tla (stage tasks, input_buffer low/high tokens, parked ring + grow, token accounting, recycle)
#   abstract spec: spec/algo/PipeAbs.tla ; filter-body begin/end events of real parallel_pipeline runs (all mode strings up to length 3,
#   selected of length 4, token limits 1..3, 0..5 items, seed-derived stage delays) validated by TLC (TracePipe.tla).
import os, re, json, vlib
SD = os.path.join(vlib.SPEC, 'algo')


def signature(tr):
    evs = [e for e in tr if not e['e'].startswith('#')]
    p = next((e for e in evs if e['e'] == 'Pipe'), {})
    head = 'modes=%s:tokens=%s' % ('-'.join(p.get('modes', [])), p.get('tokens'))
    for e in evs:
        if e['e'] in ('Stuck', 'Crash', 'Escaped', 'Terminate'):
            return head + ':' + e['e'].lower()
    i = vlib.first_unexplained(SD, 'TracePipe', 'TracePipe.cfg', evs, 'c07')
    return head + ':first-unexplained=%s' % (('%s(f=%s)' % (evs[i]['e'], evs[i].get('f'))) if i is not None else '?')


def describe(tr):
    return 'filter events of the real parallel_pipeline are rejected by PipeAbs (%s): %s' % (signature(tr), json.dumps([e for e in tr if not e['e'].startswith('#')])[:1500])


def buffer_replay(res, thorough):
    """every transition of PipeBuffer (the transcription of input_buffer: try_put_token / try_to_spawn_task_for_next_token / grow) applied to the real input_buffer"""
    exe = vlib.build_harness('h_pipebuf', ['sched/h_pipebuf.cpp'])
    os.makedirs(os.path.join(vlib.BUILD, 'graphs'), exist_ok=True); os.makedirs(os.path.join(vlib.BUILD, 'traces'), exist_ok=True)
    total = 0; dsum = 0
    for cfg in ['PipeBuffer_r6.cfg', 'PipeBuffer_n6.cfg', 'PipeBuffer_r9.cfg'] + (['PipeBuffer_r17.cfg'] if thorough else []):
        tag = 'c07-' + cfg[:-4]; dot = os.path.join(vlib.BUILD, 'graphs', tag + '.dot')
        r = vlib.tlc(SD, 'PipeBuffer', cfg, dump=dot, deadlock=False, timeout=3000, xmx='24g'); res.add_tlc(r, 'PipeBuffer:' + cfg); vlib.tlc_must_hold(r, cfg)
        if r.violation:
            raise vlib.HarnessFailure('PipeBuffer violates %s' % r.violation)
        nodes, edges, init = vlib.parse_dot(dot, ['arr', 'size', 'low', 'high', 'lastOp', 'lastRes'], raw=True); os.unlink(dot)
        proj = {}
        for k, v in nodes.items():
            f = v.split('\x1f'); cells = re.findall(r'(\d+) :> \[valid \|-> (TRUE|FALSE), tok \|-> (\d+)\]', f[0])
            slots = ','.join(tok if val == 'TRUE' else '-1' for _, val, tok in sorted(cells, key=lambda c: int(c[0])))
            op = re.findall(r'<<"?(\w+)"?, (\d+)>>', f[4])[0]
            proj[k] = (f[1].strip(), f[2].strip(), f[3].strip(), slots, op[0], op[1], f[5].strip())
        seen = set(); lines = []
        for u, outs in edges.items():
            for (v, lab, arg) in outs:
                a = proj[u]; b = proj[v]
                line = '%s|%s|%s|%s|%s|%s|%s|%s|%s|%s' % (a[0], a[1], a[2], a[3], b[4], b[5], b[6], b[0], b[1], b[3])
                if line not in seen:
                    seen.add(line); lines.append(line)
        tfn = os.path.join(vlib.BUILD, 'graphs', tag + '-%d.trans' % os.getpid()); open(tfn, 'w').write('\n'.join(lines) + '\n')
        tf = os.path.join(vlib.BUILD, 'traces', tag + '-%d.ndjson' % os.getpid())
        p = vlib.sh([exe, tfn, tf], timeout=1500); os.unlink(tfn)
        if p.returncode != 0:
            raise vlib.HarnessFailure('h_pipebuf failed: %s' % (p.stdout + p.stderr)[-1500:])
        for l in p.stderr.splitlines()[:3]:
            if l.startswith('SPEC-DRIFT'):
                print(l)
        s = json.loads(p.stdout.strip().splitlines()[-1]); total += s['transitions']; dsum += s['drift']
        evs = vlib.read_trace_file(tf)[0]; os.unlink(tf)
        execs = [evs[i:i + 400] for i in range(0, len(evs), 400)]

        def describe(tr):
            i = vlib.first_unexplained(SD, 'TracePipeBuf', 'TracePipeBuf.cfg', tr, 'c07-pb', linear=True)
            return ('one operation of the real pipeline token buffer loses, misplaces or duplicates a parked item, or hands out the wrong one: %s' % json.dumps(tr[i] if i is not None else tr[:2]))
        vlib.validate_and_report(res, SD, 'TracePipeBuf', 'TracePipeBuf.cfg', execs, tag, describe, batch=40, sig_fn=lambda tr: 'pipebuffer:op')
        vlib.log('%s: %d states, %d distinct transitions replayed on the real input_buffer, drift %d' % (tag, r.distinct, s['transitions'], s['drift']))
    res.extra.update({'buffer_transitions_replayed': total, 'buffer_drift': dsum})
    if dsum:
        print('SPEC-DRIFT property=C07 input_buffer replay: %d transitions disagree with PipeBuffer.tla' % dsum)


def run(res, tier, seed):
    exe = vlib.build_harness('h_pipe', ['sched/h_pipe.cpp'])
    thorough = tier != 'quick'
    buffer_replay(res, thorough)
    for c in ['M1', 'M2', 'M5', 'M6'] + (['M3', 'M4'] if thorough else []):
        vlib.model_check(res, SD, 'MCPipeline', 'Pipeline_%s.cfg' % c, timeout=1500)
    os.makedirs(os.path.join(vlib.BUILD, 'traces'), exist_ok=True)
    reps = 8; n = 1 if not thorough else 12
    cmds = []; tfs = []
    for r in range(reps):
        tf = os.path.join(vlib.BUILD, 'traces', 'c07-%d-%d.ndjson' % (r, os.getpid())); tfs.append(tf)
        cmds.append([exe, tf, str(n), str(seed * 8009 + r * 577), '4'])
    # gated plans on 8 logical threads, 10 tokens, 12 items: the parallel stage releases items in orders that make the ordered stage's token ring grow by jumps
    for r in range(3 if not thorough else 12):
        tf = os.path.join(vlib.BUILD, 'traces', 'c07-g%d-%d.ndjson' % (r, os.getpid())); tfs.append(tf)
        cmds.append([exe, tf, '3' if not thorough else '12', str(seed * 13 + r * 3), '0', '8', '10', '12'])
    ps = vlib.run_parallel(cmds, timeout=2500)
    nexec = 0; steps = 0; execs = []
    for pp, tf in zip(ps, tfs):
        if pp is None or pp.returncode != 0:
            raise vlib.HarnessFailure('h_pipe failed: %s' % ((pp.stdout + pp.stderr)[-1500:] if pp else 'timeout'))
        s = json.loads([l for l in pp.stdout.splitlines() if l.startswith('{')][-1]); nexec += s['paths']; steps += s['steps']
        execs += vlib.collect_traces([tf])
    vlib.validate_and_report(res, SD, 'TracePipe', 'TracePipe.cfg', execs, 'c07', describe, batch=200, sig_fn=signature,
                             group_fn=lambda t: next(('-'.join(e.get('modes', [])) for e in t if e['e'] == 'Pipe'), None))
    res.extra.update({'executions': nexec, 'real_steps_executed': steps, 'mode_strings': 45})
    res.exhaustive = False
    res.assumptions += ['arrival orders at serial stages come from seed-derived per-item stage delays and seeded random cooperative schedules (sampled)']
