# C03 - a task's exception surfaces exactly once at the wait, after the group stopped; objects destroyed exactly once.
#   protocol model: spec/sched/EHDispatch.tla (all throw subsets x all interleavings of 2-3 executing threads and the waiter)
#   abstract spec:  spec/sched/GroupEH.tla ; executions of the real library with bodies / joins / split and copy constructors / filters
#   throwing at every invocation index up to kmax (each case forked; seeded random cooperative schedules on 3 logical threads of an
#   all-reserved arena) are validated by TLC (TraceEH.tla) - the verdict.
import os, json, vlib
SD = os.path.join(vlib.SPEC, 'sched')
CLS = {0: 'body', 1: 'join', 2: 'split', 3: 'copy', 4: 'filter', 5: 'other', -1: 'none'}
PROGS = {
    'pfor_simple': [(0, 6)], 'pfor_auto': [(0, 5)], 'pfor_static': [(0, 4)], 'pfor_affinity': [(0, 4)],
    'pfor_trange': [(0, 4), (2, 4), (3, 4)],
    'preduce': [(0, 5), (1, 4), (2, 4)], 'preduce_auto': [(0, 4), (1, 3), (2, 3)],
    'pdreduce': [(0, 4), (1, 4), (2, 4)], 'pdreduce_trange': [(2, 6), (3, 4)], 'preduce_lambda': [(0, 4), (1, 4)],
    'pforeach': [(0, 8)], 'pinvoke': [(0, 4)], 'pipeline': [(4, 7), (0, 6), (1, 6)], 'pipelineT': [(4, 6), (0, 5), (1, 5)], 'taskgroup': [(0, 3), (1, 6)],
    'arena_execute': [(0, 4)], 'pscan': [(0, 6), (1, 4)], 'psort': [(0, 3)], 'flow': [(0, 4), (1, 4)],
}


def signature(tr):
    evs = [e for e in tr if not e['e'].startswith('#')]
    f = [e for e in evs if e['e'] == 'Fault']
    head = '%s:fault=%s' % (f[0].get('prog', '?'), CLS.get(f[0]['cls'], '?')) if f else '?'
    for e in evs:
        if e['e'] in ('Stuck', 'Crash', 'Terminate', 'Escaped'):
            return '%s:%s' % (head, e['e'].lower())
    i = vlib.first_unexplained(SD, 'TraceEH', 'TraceEH.cfg', evs, 'c03')
    if i is None:
        return head + ':rejected'
    e = evs[i]
    kind = {'Ret': 'returned-normally-although-thrown-or-live', 'Exc': 'wrong-exception-or-live-body', 'Quiesce': 'object-not-destroyed',
            'BB': 'body-started-outside-call', 'Obj': 'object-destroyed-twice-or-unknown'}.get(e['e'], e['e'])
    return '%s:%s' % (head, kind)


def describe(tr):
    return 'recorded execution of the real library is rejected by GroupEH (%s): %s' % (signature(tr), json.dumps([e for e in tr if not e['e'].startswith('#')])[:1200])


def run(res, tier, seed):
    exe = vlib.build_harness('h_eh', ['sched/h_eh.cpp'])
    thorough = tier != 'quick'
    vlib.model_check(res, SD, 'EHDispatch', 'EHDispatch_4x2.cfg')
    if thorough:
        vlib.model_check(res, SD, 'EHDispatch', 'EHDispatch_5x3.cfg', timeout=1500)
    nseeds = 6 if not thorough else 24
    os.makedirs(os.path.join(vlib.BUILD, 'traces'), exist_ok=True)
    jobs = []
    for prog, faults in sorted(PROGS.items()):
        jobs.append((prog, -1, 0))
        for cls, kmax in faults:
            jobs.append((prog, cls, kmax if not thorough else kmax + 3))
    cmds = []; tfs = []
    for k, (prog, cls, kmax) in enumerate(jobs):
        tf = os.path.join(vlib.BUILD, 'traces', 'c03-%s-%d-%d.ndjson' % (prog, cls, os.getpid())); tfs.append(tf)
        cmds.append([exe, tf, prog, str(cls), str(kmax), str(nseeds), str(seed * 7001 + k)])
    ps = vlib.run_parallel(cmds, timeout=3000)
    ncases = 0; execs_all = []
    for (prog, cls, kmax), pp, tf in zip(jobs, ps, tfs):
        if pp is None or pp.returncode != 0:
            raise vlib.HarnessFailure('h_eh %s/%s failed: %s' % (prog, cls, (pp.stdout + pp.stderr)[-1500:] if pp else 'timeout'))
        ncases += json.loads([l for l in pp.stdout.splitlines() if l.startswith('{')][-1])['paths']
        execs_all += vlib.collect_traces([tf])
    vlib.validate_and_report(res, SD, 'TraceEH', 'TraceEH.cfg', execs_all, 'c03', describe, batch=120, sig_fn=signature,
                             group_fn=lambda t: next(('%s/%s' % (e.get('prog'), e.get('cls')) for e in t if e['e'] == 'Fault'), None))
    res.extra.update({'fault_cases_executed': ncases, 'programs': len(PROGS), 'seeds_per_case': nseeds})
    res.exhaustive = False
    res.assumptions += ['fault positions: every invocation index of the callback class up to the listed kmax, one fault per execution',
                        'schedules: seeded random cooperative interleavings on 3 logical threads (not TLC-enumerated)', 'the C++ runtime exception machinery is trusted']
