# C11 - concurrent_vector growth hands out disjoint ranges, never moves elements, grow_to_at_least returns, segment arithmetic is a
#       bijection, failures leave a destructible vector.
#   protocol spec: spec/cont/SegVector.tla (size claim, first-block election, owner-allocates-segment, spin on null segment)
#   abstract spec: spec/cont/VectorAbs.tla ; recorded executions of the real vector validated by TLC (TraceVector.tla) - the verdict
import os, json, vlib
SD = os.path.join(vlib.SPEC, 'cont')
RANDOM = [
    ['pb:11,gb:3:12,gb:2:13', 'gb:5:21,pb:22', 'gtal:6:31,gb:4:32'],
    ['pb:11,pb:12,pb:13', 'pb:21,pb:22', 'pb:31,pb:32,pb:33'],
    ['gb:2:11,gb:2:12', 'gb:1:21,gb:4:22', 'gtal:8:31', 'gtal:9:41,pb:42'],        # embedded table (3 pointers) -> long table switch
    ['gb:7:11,gb:8:12', 'gb:9:21,gb:1:22', 'gb:16:31,gtal:40:32'],
    ['gtal:3:11,gb:15:12', 'gtal:17:21', 'gb:17:31,pb:32'],
    # the switch from the embedded to the long segment table while a first block of >= 4 segments is still being allocated: the thread that is told "somebody else
    # extends the table" must reload the table pointer
    ['gb:1:11,pb:12', 'gb:20:21'],
    ['gb:8:11', 'pb:21,pb:22', 'gb:10:31'],
    ['gb:2:11,gb:7:12', 'gb:12:21', 'pb:31,gb:3:32'],
]
FAULT = [('ctor', 12, 'pb:1,pb:2,pb:3,pb:4,pb:5,gb:100:7'), ('ctor', 6, 'gb:20:1,gb:200:2'), ('ctor', 20, 'pb:1,gb:5:2,gb:9:3'), ('alloc', 6, 'pb:1,gb:5:2,gb:9:3,gb:20:4'), ('ctor', 12, 'gb:3:1,gtal:12:2'), ('alloc', 5, 'gtal:20:1,pb:2'),
         ('ctor', 30, 'gb:2:1,gb:2:2,gb:30:3'), ('alloc', 8, 'pb:1,pb:2,pb:3,gb:6:4,gb:40:5')]


def signature(tr):
    evs = [e for e in tr if not e['e'].startswith('#')]
    f = [e for e in evs if e['e'] == 'Fault']
    for e in evs:
        if e['e'] == 'Crash':
            return ('crash-after-%s-fault' % f[0]['kind']) if f else ('crash:k=%s,r=%s' % (e.get('k'), e.get('r')))
        if e['e'] == 'Stuck':
            return ('stuck-after-%s-fault' % f[0]['kind']) if f else ('stuck:grow_to_at_least(2^%s%+d)' % (e.get('k'), e.get('r', 0)) if 'k' in e else 'stuck')
    i = vlib.first_unexplained(SD, 'TraceVector', 'TraceVector.cfg', evs, 'c11')
    if i is not None:
        e = evs[i]
        if e['e'] == 'Gtal':
            return 'first-unexplained=Gtal(%s)' % ('returned-before-all-elements-below-n-allocated' if (e['size'] < e['n'] or not e['alloc']) else 'other')
        return 'first-unexplained=%s' % e['e']
    return 'not-a-vector-behaviour'


def describe(tr):
    return 'recorded execution of the real concurrent_vector is rejected by VectorAbs (%s): %s' % (signature(tr), json.dumps([e for e in tr if not e['e'].startswith('#')][:30])[:1500])


def run(res, tier, seed):
    exe = vlib.build_harness('h_vector', ['cont/h_vector.cpp'])
    thorough = tier != 'quick'
    os.makedirs(os.path.join(vlib.BUILD, 'traces'), exist_ok=True)
    for cfg in ['SegVector_D3.cfg', 'SegVector_D3b.cfg'] + (['SegVector_D4.cfg'] if thorough else []):
        vlib.model_check(res, SD, 'MCSegVector', cfg, timeout=1200)
    n = 400 if not thorough else 6000
    jobs = [('rand-%d' % k, ['random', str(n), str(seed * 3001 + k)], progs) for k, progs in enumerate(RANDOM)]
    jobs += [('fault-%s-%d' % (kind, k), ['fault', kind, str(kmax)], [prog]) for k, (kind, kmax, prog) in enumerate(FAULT)]
    cmds = []; tfs = []
    for name, pre, progs in jobs:
        tf = os.path.join(vlib.BUILD, 'traces', 'c11-%s-%d.ndjson' % (name, os.getpid())); tfs.append(tf)
        cmds.append([exe] + pre + [tf] + progs)
    tf = os.path.join(vlib.BUILD, 'traces', 'c11-segidx-%d.ndjson' % os.getpid()); tfs.append(tf); cmds.append([exe, 'segidx', tf]); jobs.append(('segidx', [], []))
    tf = os.path.join(vlib.BUILD, 'traces', 'c11-big-%d.ndjson' % os.getpid()); tfs.append(tf)
    cmds.append([exe, 'big', tf, '20:0,31:0' if not thorough else '20:0,30:1,31:-1,31:0,31:1,32:0', '60' if not thorough else '400']); jobs.append(('big', [], []))
    ps = vlib.run_parallel(cmds, timeout=3000)
    nexec = 0; steps = 0
    for (name, pre, progs), pp, tf in zip(jobs, ps, tfs):
        if pp is None or pp.returncode != 0:
            raise vlib.HarnessFailure('h_vector %s failed: %s' % (name, (pp.stdout + pp.stderr)[-1500:] if pp else 'timeout'))
        s = json.loads([l for l in pp.stdout.splitlines() if l.startswith('{')][-1]); nexec += s['paths']; steps += s['steps']
        vlib.validate_and_report(res, SD, 'TraceVector', 'TraceVector.cfg', vlib.collect_traces([tf]), 'c11-' + name, describe, batch=150, sig_fn=signature)
    res.extra.update({'executions': nexec, 'real_steps_executed': steps, 'schedules_per_scenario': n, 'fault_cases': sum(k for _, k, _ in FAULT),
                      'segment_index_cases': 186})
    res.exhaustive = False
    res.assumptions += ['real-code schedules are seeded random cooperative interleavings (not TLC-enumerated)',
                        'grow_to_at_least: elements under construction by OTHER threads are not awaited (documented behaviour); the clause is read as size() >= n and all elements below n allocated',
                        'after an injected failure only accesses and destruction are exercised (a later growth may block by design)']
