# C17 - tbbmalloc blocks are disjoint, aligned, big enough, and keep their contents.
#   function spec (TLC): malloc/SizeClass (getIndex / getObjectSize transcription, every request size 1..8128: object size >= request, monotone bins,
#       one size per bin, 8 / 16-byte alignment, bin index in range)
#   protocol spec (TLC): malloc/SlabBlock (one slab: owner malloc / free, foreign frees through the public free list CAS, first freer links the slab
#       into the owner's mailbox, privatisation by exchange, thread exit -> orphaned slab shared with the UNUSABLE marker and adopted by a foreign
#       thread): an object is never in two places, never handed out twice, none lost, allocatedCount exact, one adopter
#   abstract spec: malloc/HeapAbs; the real (bin, object size) table and random API sequences (malloc / calloc / realloc / aligned_malloc /
#   aligned_realloc / posix_memalign / free / msize / clean-up commands; sizes on every class boundary, alignments to 1 MiB; frees by other threads;
#   a thread that exits early with live blocks) executed on 1-4 logical threads under random / PCT cooperative schedules over every atomic and
#   mutex of the allocator are validated by TLC (TraceSizeClass, TraceHeap).
import os, json, re, vlib
SD = os.path.join(vlib.SPEC, 'malloc')
MFLAGS = ['-D__TBBMALLOC_BUILD=1', '-I' + os.path.join(vlib.REPO, 'src', 'tbbmalloc'), '-I' + os.path.join(vlib.REPO, 'src')]


def build():
    return vlib.build_harness('h_malloc', ['malloc/h_malloc.cpp'], extra_flags=MFLAGS, link_tbb=False)


def sig(module):
    def signature(tr):
        evs = [e for e in tr if not e['e'].startswith('#')]
        sc = next((e.get('name') for e in evs if e['e'] == 'Scenario'), '?')
        for e in evs:
            if e['e'] in ('Crash', 'Stuck', 'Terminate'):
                return '%s:%s' % (sc, e['e'].lower())
        i = vlib.first_unexplained(SD, module, module + '.cfg', evs, 'mal', linear=True)
        if i is None:
            return '%s:?' % sc
        e = evs[i]
        flags = ','.join(k for k in ('al', 'ms', 'ze', 'pf', 'pt', 'rep', 'rec') if e.get(k) == 0)
        return '%s:first-unexplained=%s%s' % (sc, e['e'], ('(' + flags + ')') if flags else '')
    return signature


def run(res, tier, seed):
    thorough = tier != 'quick'
    vlib.model_check(res, SD, 'SizeClass', 'SizeClass.cfg', deadlock=False)
    for cfg in ['SlabBlock_A.cfg', 'SlabBlock_B.cfg', 'SlabBlock_X.cfg']:
        vlib.model_check(res, SD, 'MCs', cfg, timeout=1500)
    exe = build()
    os.makedirs(os.path.join(vlib.BUILD, 'traces'), exist_ok=True)
    # size-class table of the real functions
    tf = os.path.join(vlib.BUILD, 'traces', 'c17-sc-%d.ndjson' % os.getpid())
    p = vlib.sh([exe, 'sizeclass', tf], timeout=120)
    if p.returncode != 0:
        raise vlib.HarnessFailure('h_malloc sizeclass failed: %s' % (p.stdout + p.stderr)[-1500:])
    ok, r = vlib.validate_trace_file(SD, 'TraceSizeClass', 'TraceSizeClass.cfg', tf)
    res.states += r.distinct; res.transitions += r.generated
    m = re.findall(r'drift = (\d+)', r.out); drift = int(m[-1]) if m else 0
    if not ok:
        evs = vlib.read_trace_file(tf)[0]; i = min(max(r.distinct - 1, 0), len(evs) - 1)
        res.violation('sizeclass:size=%d' % evs[i]['s'], 'the (bin index, object size) the real getIndex / getObjectSize return for request size %d violates the size-class properties '
                      '(object size >= request, monotone, one size per bin, alignment, index range): %s' % (evs[i]['s'], json.dumps(evs[max(0, i - 1):i + 1])), {'event': evs[i]})
    else:
        res.traces += 1
    os.unlink(tf)
    res.extra['sizeclass_transcription_drift'] = drift
    if drift:
        print('SPEC-DRIFT property=C17 size-class transcription disagrees with the code on %d sizes (properties still hold)' % drift)
    # ---- the orphaned-slab list: every edge of LifoList replayed on the real rml::internal::LifoList (top and lock flag compared per step)
    os.makedirs(os.path.join(vlib.BUILD, 'graphs'), exist_ok=True)
    for cfg, nb, prog in [('LifoList_A.cfg', 2, 'pop,push|grab,push'), ('LifoList_B.cfg', 2, 'pop,push|grab,push|pop')] + ([('LifoList_C.cfg', 3, 'pop,pop,push|grab,push,grab|pop,push')] if thorough else []):
        tag = 'c17-' + cfg[:-4]; dot = os.path.join(vlib.BUILD, 'graphs', tag + '.dot')
        r = vlib.tlc(SD, 'MClf', cfg, dump=dot, deadlock=False, timeout=3000, xmx='24g'); res.add_tlc(r, 'LifoList:' + cfg); vlib.tlc_must_hold(r, cfg)
        if r.violation:
            raise vlib.HarnessFailure('LifoList model violates %s' % r.violation)
        nodes, edges, init = vlib.parse_dot(dot, ['top', 'lk'], raw=True); os.unlink(dot)
        nodes = {k: '%s,%d' % (v.split('\x1f')[0].strip(), v.split('\x1f')[1].strip() == 'TRUE') for k, v in nodes.items()}
        paths, cov, tot = vlib.edge_cover(nodes, edges, init)
        sched = os.path.join(vlib.BUILD, 'graphs', tag + '.sched'); vlib.write_schedules(paths, sched)
        sums, tfs = vlib.run_harness_parallel(lambda part, tf: [exe, 'lifo', part, tf, str(nb), prog], sched, tag, timeout=2500)
        ssum = vlib.sum_dicts(sums); os.unlink(sched)
        vlib.validate_and_report(res, SD, 'TraceLifo', 'TraceLifo.cfg', vlib.collect_traces(tfs), tag,
                                 lambda tr: 'replay of LifoList on the real orphaned-slab list: a slab was handed to two owners, lost, or the list is corrupt at the end: ' + json.dumps([e for e in tr if not e['e'].startswith('#')])[:1200],
                                 sig_fn=lambda tr: 'lifolist:' + ('stuck' if any(e['e'] == 'Stuck' for e in tr) else 'two-owners-or-lost'))
        vlib.log('%s: %d states, %d/%d edges in %d schedules, %d real steps, drift %d, mismatch %d' % (tag, r.distinct, cov, tot, len(paths), ssum['steps'], ssum['drift'], ssum['state_mismatch']))
        res.extra['spec_edges_replayed'] = res.extra.get('spec_edges_replayed', 0) + cov; res.extra['spec_edges_total'] = res.extra.get('spec_edges_total', 0) + tot
        res.extra['drift_steps'] = res.extra.get('drift_steps', 0) + ssum['drift'] + ssum['state_mismatch']
        if ssum['drift'] + ssum['state_mismatch']:
            print('SPEC-DRIFT property=C17 orphan list replay: %d paths disagree with LifoList.tla' % (ssum['drift'] + ssum['state_mismatch']))
    # random API sequences on logical threads
    n = 30 if not thorough else 600
    jobs = [(1, 90), (2, 70), (3, 60), (3, 60), (4, 50), (4, 0), (4, 0), (4, 0)] + ([(2, 120), (4, 80), (4, 80), (4, 0)] if thorough else [])     # ops 0 = the orphaned-slab scenario
    cmds = []; tfs = []
    for k, (N, ops) in enumerate(jobs):
        t = os.path.join(vlib.BUILD, 'traces', 'c17-heap-%d-%d.ndjson' % (k, os.getpid())); tfs.append(t)
        cmds.append([exe, 'heap', t, str(n if ops else n * 8), str(seed * 9001 + k * 131), str(N), str(ops)])
    ps = vlib.run_parallel(cmds, timeout=3000)
    execs = []; steps = 0; nexec = 0
    for pp, t, c in zip(ps, tfs, cmds):
        if pp is None or pp.returncode != 0:
            raise vlib.HarnessFailure('h_malloc heap failed: %s' % ((pp.stdout + pp.stderr)[-1500:] if pp else 'timeout'))
        s = json.loads([l for l in pp.stdout.splitlines() if l.startswith('{')][-1]); steps += s['steps']; nexec += s['paths']
        execs += vlib.collect_traces([t])
    for t in execs:
        if any(e['e'] == 'Stuck' and e.get('rc') == 'watchdog' for e in t):
            raise vlib.HarnessFailure('h_malloc child hung outside scheduler control (watchdog)')
    sg = sig('TraceHeap')
    vlib.validate_and_report(res, SD, 'TraceHeap', 'TraceHeap.cfg', execs, 'c17-heap',
                             lambda tr: 'recorded execution of the real allocator is rejected by HeapAbs (%s): %s' % (sg(tr), json.dumps([e for e in tr if not e['e'].startswith('#')][-12:])[:1500]),
                             batch=60, sig_fn=sg)
    res.extra.update({'executions': nexec, 'real_steps_executed': steps, 'api_calls_validated': sum(len(t) for t in execs)})
    # the top of the size range: requests that cannot be represented (sizes / products / alignments up to and beyond 2^64, incl. the family of calloc(a, b)
    # whose product wraps to a small value) - a block returned for one of them is smaller than the request.  Same scenario and abstract spec as C18 (PoolAbs: a
    # refused request is reported, nothing is returned, live blocks stay intact).
    t = os.path.join(vlib.BUILD, 'traces', 'c17-top-%d.ndjson' % os.getpid())
    pp = vlib.sh([exe, 'oom', t, str(6 if not thorough else 60), str(seed * 5003 + 17)], timeout=2500)
    if pp.returncode != 0:
        raise vlib.HarnessFailure('h_malloc oom failed: %s' % (pp.stdout + pp.stderr)[-1500:])
    tex = vlib.collect_traces([t])
    for tr in tex:
        if any(e['e'] == 'Stuck' and e.get('rc') == 'watchdog' for e in tr):
            raise vlib.HarnessFailure('h_malloc child hung (watchdog)')
    sp = sig('TracePool')
    vlib.validate_and_report(res, SD, 'TracePool', 'TracePool.cfg', tex, 'c17-top',
                             lambda tr: 'a request that cannot be represented was not refused cleanly (%s): %s' % (sp(tr), json.dumps([e for e in tr if not e['e'].startswith('#')][-14:])[:1500]),
                             batch=60, sig_fn=sp)
    res.extra['unrepresentable_requests_validated'] = sum(1 for tr in tex for e in tr if e['e'] == 'Fail')
    res.exhaustive = False
    res.assumptions += ['API sequences and schedules are seeded random (sampled); sequentially consistent; 1-4 logical threads, <= 20 live blocks',
                        'overlap with allocator metadata is observed only through the fill patterns of live blocks (whole block up to 8 KiB, first and last 4 KiB beyond)',
                        'block addresses are compared through order-preserving ranks (TLC integers are 32 bit)']
