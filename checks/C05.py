# C05 - parallel loops apply the body exactly once to every element, in legal chunks.
#   function spec: spec/algo/Partitioner.tla (blocked_range split / proportional split arithmetic; every split tree a partitioner may produce)
#   abstract spec: spec/algo/RangeCover.tla ; subranges seen by the bodies of real parallel_for / parallel_for_each / parallel_invoke runs
#   (1-d x 4 partitioners x sizes x grains, 2d/3d/nd, first/last/step, feeder items, sizes beyond 2^24 / 2^31 / 2^32 / 2^64-2) on 3 logical
#   threads under seeded random cooperative schedules (which decide the steal pattern) are validated by TLC (TraceLoops.tla).
import re, os, json, vlib
SD = os.path.join(vlib.SPEC, 'algo')


def signature(tr):
    evs = [e for e in tr if not e['e'].startswith('#')]
    loop = next((e for e in evs if e['e'] == 'Loop'), {})
    head = '%s:%s:dims=%d' % (loop.get('kind', '?'), loop.get('part', '?'), len(loop.get('lo', [])))
    for e in evs:
        if e['e'] in ('Stuck', 'Crash', 'Escaped', 'Terminate'):
            return head + ':' + e['e'].lower()
    i = vlib.first_unexplained(SD, 'TraceLoops', 'TraceLoops.cfg', evs, 'c05')
    return head + ':' + ('first-unexplained=%s' % evs[i]['e'] if i is not None else 'rejected')


def describe(tr):
    return 'subranges handed to the body by the real library are rejected by RangeCover (%s): %s' % (signature(tr), json.dumps([e for e in tr if not e['e'].startswith('#')])[:1500])


def pool_replay(res, thorough):
    """every transition of RangePool (the transcription of range_vector: split_to_fill / pop_back / pop_front) applied to the real range_vector<blocked_range<int>, 8>"""
    exe = vlib.build_harness('h_rangepool', ['sched/h_rangepool.cpp'], link_tbb=False)
    os.makedirs(os.path.join(vlib.BUILD, 'graphs'), exist_ok=True); os.makedirs(os.path.join(vlib.BUILD, 'traces'), exist_ok=True)
    for cfg in (['RangePool_q.cfg'] if not thorough else ['RangePool.cfg', 'RangePool_big.cfg']):
        _pool_replay_cfg(res, exe, cfg)


def _pool_replay_cfg(res, exe, cfg):
    tag = 'c05-' + cfg[:-4]; dot = os.path.join(vlib.BUILD, 'graphs', tag + '.dot')
    r = vlib.tlc(SD, 'RangePool', cfg, dump=dot, deadlock=False, timeout=3000, xmx='24g'); res.add_tlc(r, 'RangePool:' + cfg); vlib.tlc_must_hold(r, cfg)
    if r.violation:
        raise vlib.HarnessFailure('RangePool violates %s' % r.violation)
    nodes, edges, init = vlib.parse_dot(dot, ['pool', 'head', 'tail', 'size', 'grain', 'lastOp'], raw=True); os.unlink(dot)
    proj = {}
    for k, v in nodes.items():
        f = v.split('\x1f'); cells = {int(i): (lo, hi, d) for i, lo, hi, d in re.findall(r'(\d+) :> \[lo \|-> (\d+), hi \|-> (\d+), d \|-> (\d+)\]', f[0])}
        head, tail, size = int(f[1]), int(f[2]), int(f[3]); lv = set((tail + j) % 8 for j in range(size))
        slots = ','.join('%s.%s.%s' % cells[i] if i in lv else '-' for i in range(8))
        op = re.findall(r'<<"?(\w+)"?, (\d+)>>', f[5])[0]
        proj[k] = (f[4].strip(), str(head), str(tail), str(size), slots, op[0], op[1])
    seen = set(); lines = []
    for u, outs in edges.items():
        for (v, lab, arg) in outs:
            a = proj[u]; b = proj[v]
            line = '|'.join([a[0], a[1], a[2], a[3], a[4], b[5], b[6], b[1], b[2], b[3], b[4]])
            if line not in seen and a[3] != '0':
                seen.add(line); lines.append(line)
    tfn = os.path.join(vlib.BUILD, 'graphs', tag + '-%d.trans' % os.getpid()); open(tfn, 'w').write('\n'.join(lines) + '\n')
    tf = os.path.join(vlib.BUILD, 'traces', tag + '-%d.ndjson' % os.getpid())
    p = vlib.sh([exe, tfn, tf], timeout=1500); os.unlink(tfn)
    if p.returncode != 0:
        raise vlib.HarnessFailure('h_rangepool failed: %s' % (p.stdout + p.stderr)[-1500:])
    for l in p.stderr.splitlines()[:3]:
        if l.startswith('SPEC-DRIFT'):
            print(l)
    s = json.loads(p.stdout.strip().splitlines()[-1])
    evs = vlib.read_trace_file(tf)[0]; os.unlink(tf)
    execs = [evs[i:i + 500] for i in range(0, len(evs), 500)]

    def describe(tr):
        i = vlib.first_unexplained(SD, 'TraceRangePool', 'TraceRangePool.cfg', tr, 'c05-rp', linear=True)
        return ('one operation of the real range_vector loses, duplicates or reorders iterations, splits a range it must not split or exceeds the depth limit: %s' % json.dumps(tr[i] if i is not None else tr[:2]))
    vlib.validate_and_report(res, SD, 'TraceRangePool', 'TraceRangePool.cfg', execs, tag, describe, batch=40, sig_fn=lambda tr: 'rangepool:op')
    vlib.log('%s: %d states, %d distinct transitions replayed on the real range_vector, drift %d' % (tag, r.distinct, s['transitions'], s['drift']))
    res.extra['pool_transitions_replayed'] = res.extra.get('pool_transitions_replayed', 0) + s['transitions']; res.extra['pool_drift'] = res.extra.get('pool_drift', 0) + s['drift']
    if s['drift']:
        print('SPEC-DRIFT property=C05 range_vector replay: %d transitions disagree with RangePool.tla' % s['drift'])


def run(res, tier, seed):
    exe = vlib.build_harness('h_loops', ['sched/h_loops.cpp'])
    thorough = tier != 'quick'
    pool_replay(res, thorough)
    vlib.model_check(res, SD, 'Partitioner', 'Partitioner_small.cfg', deadlock=False)
    if thorough:
        vlib.model_check(res, SD, 'Partitioner', 'Partitioner_big.cfg', deadlock=False, timeout=3000)
    os.makedirs(os.path.join(vlib.BUILD, 'traces'), exist_ok=True)
    jobs = [('r1d', 1 if not thorough else 12), ('rnd', 6 if not thorough else 60), ('items', 8 if not thorough else 80), ('large', 1 if not thorough else 8)]
    # the 1-d sweep is split over several processes
    cmds = []; tfs = []; names = []
    for mode, n in jobs:
        reps = 6 if mode == 'r1d' else 1
        for r in range(reps):
            tf = os.path.join(vlib.BUILD, 'traces', 'c05-%s-%d-%d.ndjson' % (mode, r, os.getpid())); tfs.append(tf); names.append(mode)
            cmds.append([exe, tf, mode, str(n), str(seed * 5003 + r * 101)])
    ps = vlib.run_parallel(cmds, timeout=2500)
    nexec = 0; steps = 0
    for name, pp, tf in zip(names, ps, tfs):
        if pp is None or pp.returncode != 0:
            raise vlib.HarnessFailure('h_loops %s failed: %s' % (name, (pp.stdout + pp.stderr)[-1500:] if pp else 'timeout'))
        s = json.loads([l for l in pp.stdout.splitlines() if l.startswith('{')][-1]); nexec += s['paths']; steps += s['steps']
        vlib.validate_and_report(res, SD, 'TraceLoops', 'TraceLoops.cfg', vlib.collect_traces([tf]), 'c05-' + name, describe, batch=150, sig_fn=signature,
                                 group_fn=lambda t: next((('%s/%s/%d' % (e.get('kind'), e.get('part'), len(e.get('lo', [])))) for e in t if e['e'] == 'Loop'), None))
    res.extra.update({'executions': nexec, 'real_steps_executed': steps})
    res.exhaustive = False
    res.assumptions += ['steal patterns are those produced by seeded random cooperative schedules on 3 logical threads (not enumerated)',
                        'sizes >= 2^31 are compared through rank-compressed end-points; chunk-size classes are computed by the recorder in 64-bit arithmetic',
                        'the exact float split point above 2^24 is validated as a legal interior point, not predicted']
