# C05 - parallel loops apply the body exactly once to every element, in legal chunks.
#   function spec: spec/algo/Partitioner.tla (blocked_range split / proportional split arithmetic; every split tree a partitioner may produce)
#   abstract spec: spec/algo/RangeCover.tla ; subranges seen by the bodies of real parallel_for / parallel_for_each / parallel_invoke runs
#   (1-d x 4 partitioners x sizes x grains, 2d/3d/nd, first/last/step, feeder items, sizes beyond 2^24 / 2^31 / 2^32 / 2^64-2) on 3 logical
#   threads under seeded random cooperative schedules (which decide the steal pattern) are validated by TLC (TraceLoops.tla).
import os, json, vlib
SD = os.path.join(vlib.SPEC, 'algo')


def signature(tr):
    evs = [e for e in tr if not e['e'].startswith('#')]
    loop = next((e for e in evs if e['e'] == 'Loop'), {})
    head = '%s:%s:dims=%d' % (loop.get('kind', '?'), loop.get('part', '?'), len(loop.get('lo', [])))
    for e in evs:
        if e['e'] in ('Stuck', 'Crash', 'Escaped', 'Terminate'):
            return head + ':' + e['e'].lower()
    i = vlib.first_unexplained(SD, 'TraceLoops', 'TraceLoops.cfg', evs, 'c05')
    return head + ':' + ('first-unexplained=%s' % evs[i]['e'] if i is not None else 'rejected')


def describe(tr):
    return 'subranges handed to the body by the real library are rejected by RangeCover (%s): %s' % (signature(tr), json.dumps([e for e in tr if not e['e'].startswith('#')])[:1500])


def run(res, tier, seed):
    exe = vlib.build_harness('h_loops', ['sched/h_loops.cpp'])
    thorough = tier != 'quick'
    vlib.model_check(res, SD, 'Partitioner', 'Partitioner_small.cfg', deadlock=False)
    if thorough:
        vlib.model_check(res, SD, 'Partitioner', 'Partitioner_big.cfg', deadlock=False, timeout=3000)
    os.makedirs(os.path.join(vlib.BUILD, 'traces'), exist_ok=True)
    jobs = [('r1d', 1 if not thorough else 12), ('rnd', 6 if not thorough else 60), ('items', 8 if not thorough else 80), ('large', 1 if not thorough else 8)]
    # the 1-d sweep is split over several processes
    cmds = []; tfs = []; names = []
    for mode, n in jobs:
        reps = 6 if mode == 'r1d' else 1
        for r in range(reps):
            tf = os.path.join(vlib.BUILD, 'traces', 'c05-%s-%d-%d.ndjson' % (mode, r, os.getpid())); tfs.append(tf); names.append(mode)
            cmds.append([exe, tf, mode, str(n), str(seed * 5003 + r * 101)])
    ps = vlib.run_parallel(cmds, timeout=2500)
    nexec = 0; steps = 0
    for name, pp, tf in zip(names, ps, tfs):
        if pp is None or pp.returncode != 0:
            raise vlib.HarnessFailure('h_loops %s failed: %s' % (name, (pp.stdout + pp.stderr)[-1500:] if pp else 'timeout'))
        s = json.loads([l for l in pp.stdout.splitlines() if l.startswith('{')][-1]); nexec += s['paths']; steps += s['steps']
        vlib.validate_and_report(res, SD, 'TraceLoops', 'TraceLoops.cfg', vlib.collect_traces([tf]), 'c05-' + name, describe, batch=150, sig_fn=signature,
                                 group_fn=lambda t: next((('%s/%s/%d' % (e.get('kind'), e.get('part'), len(e.get('lo', [])))) for e in t if e['e'] == 'Loop'), None))
    res.extra.update({'executions': nexec, 'real_steps_executed': steps})
    res.exhaustive = False
    res.assumptions += ['steal patterns are those produced by seeded random cooperative schedules on 3 logical threads (not enumerated)',
                        'sizes >= 2^31 are compared through rank-compressed end-points; chunk-size classes are computed by the recorder in 64-bit arithmetic',
                        'the exact float split point above 2^24 is validated as a legal interior point, not predicted']
