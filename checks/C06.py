# C06 - parallel_reduce / deterministic_reduce / scan / sort equal the sequential result for any input and schedule.
#   protocol model: spec/algo/Reduce.tla (lazy body split when the left sibling is still running, zombie body, join order in fold_tree)
#   abstract spec:  spec/algo/AlgoAbs.tla ; results of the real algorithms with symbolic operands (element ids, join = append) under seeded
#   random cooperative schedules on 3 logical threads are validated by TLC (TraceAlgo.tla).
import os, json, vlib
SD = os.path.join(vlib.SPEC, 'algo')


def signature(tr):
    evs = [e for e in tr if not e['e'].startswith('#')]
    for e in evs:
        if e['e'] in ('Stuck', 'Crash', 'Escaped', 'Terminate'):
            return e['e'].lower()
    i = vlib.first_unexplained(SD, 'TraceAlgo', 'TraceAlgo.cfg', evs, 'c06')
    return 'first-unexplained=%s' % (evs[i]['e'] if i is not None else '?')


def describe(tr):
    return 'result of the real algorithm is rejected by AlgoAbs (%s): %s' % (signature(tr), json.dumps([e for e in tr if not e['e'].startswith('#')])[:1500])


def run(res, tier, seed):
    exe = vlib.build_harness('h_algo', ['sched/h_algo.cpp'])
    thorough = tier != 'quick'
    vlib.model_check(res, SD, 'Reduce', 'Reduce_d2.cfg', deadlock=False)
    vlib.model_check(res, SD, 'Reduce', 'Reduce_d3.cfg', deadlock=False)
    os.makedirs(os.path.join(vlib.BUILD, 'traces'), exist_ok=True)
    jobs = []
    for mode, n, reps in (('reduce', 1 if not thorough else 6, 4), ('det', 2 if not thorough else 20, 2), ('scan', 2 if not thorough else 20, 2), ('sort', 6 if not thorough else 120, 2)):
        for r in range(reps):
            jobs.append((mode, n, r))
    jobs.append(('sweep', 1 if not thorough else 2, 0))          # parallel_sort's pre-test: every single-inversion input of ~50 (thorough ~200) sizes, natively
    cmds = []; tfs = []
    for mode, n, r in jobs:
        tf = os.path.join(vlib.BUILD, 'traces', 'c06-%s-%d-%d.ndjson' % (mode, r, os.getpid())); tfs.append(tf)
        cmds.append([exe, tf, mode, str(n), str(seed * 6007 + r * 1013)])
    ps = vlib.run_parallel(cmds, timeout=2500)
    nexec = 0; steps = 0
    for (mode, n, r), pp, tf in zip(jobs, ps, tfs):
        if pp is None or pp.returncode != 0:
            raise vlib.HarnessFailure('h_algo %s failed: %s' % (mode, (pp.stdout + pp.stderr)[-1500:] if pp else 'timeout'))
        s = json.loads([l for l in pp.stdout.splitlines() if l.startswith('{')][-1]); nexec += s['paths']; steps += s['steps']
        vlib.validate_and_report(res, SD, 'TraceAlgo', 'TraceAlgo.cfg', vlib.collect_traces([tf]), 'c06-' + mode, describe, batch=150,
                                 sig_fn=lambda tr, mode=mode: mode + ':' + signature(tr))
    res.extra.update({'executions': nexec, 'real_steps_executed': steps})
    res.exhaustive = False
    res.assumptions += ['steal patterns from seeded random cooperative schedules on 3 logical threads (sampled)',
                        'parallel_sort on inputs above 12 elements: the recorder decides sorted / permutation and TLC only checks the flags (stated weak spot, DESIGN 5)']
