# C02 - no lost wake-up: blocked waits return and enqueued work eventually runs.
#   protocol specs (TLC): sync/Monitor (concurrent_monitor prepare/commit/cancel vs notify, futex semaphore, monitor mutex; SC and x86-TSO with
#                         the client's relaxed store buffered; liveness under fairness), sched/PoolState (advertise_new_work vs out_of_work with the
#                         busy state: no lost enqueued task), sched/TaskStream (lanes, try-locked lane mutexes, population bits: every edge replayed on the
#                         real task_stream), sched/Demand (thread_request_serializer pending-delta aggregator: no lost delta)
#   facts from the code (DESIGN 2.6): the full fences of prepare_wait / notify are observed on the running code and fed into the TSO model.
#   abstract spec: sync/WakeAbs; real blocking calls (raw concurrent_monitor, bounded queue, mutex, rw_mutex, task_group wait, execute without a
#   free slot, suspended task, enqueue with RML workers as logical threads) on logical threads under seeded random / PCT cooperative schedules
#   with total futex emulation, optionally with emulated store buffers, validated by TLC (TraceWake): a state in which nothing can run although
#   a blocked thread's condition holds or an enqueued task is pending is rejected.
import schedlib, os, re, json, vlib
SDY = os.path.join(vlib.SPEC, 'sync'); SDS = os.path.join(vlib.SPEC, 'sched')
SC_Q = ['mon_all', 'mon_all22', 'mon_one', 'mon_pred', 'mon_abort', 'bq', 'bq2', 'bq13', 'mtx', 'rwm', 'rwu', 'tgwait', 'exec1x3', 'suspF',
        'enq', 'enq1', 'enq0', 'enq0', 'enq03', 'enqL1', 'enq1L1', 'enqL2x2', 'enqx2']
HOLD = ['execstay', 'execstay2', 'exec2x3H', 'exec2x4H', 'execbaton', 'mtx2a', 'mtx2b', 'mtx2c', 'mtx2d', 'tgwaitH', 'tgwait3H', 'exec1x3H', 'exec1x4H', 'suspFH', 'suspF2H', 'enqH', 'enq1H', 'enqL1H', 'enqx2H']     # sleeping paths entered on purpose (long runs)
TSO = ['mon_all', 'mon_all22', 'mon_one', 'mon_pred', 'mon_abort', 'bq', 'bq13', 'mtx', 'rwm', 'rwu', 'tgwait', 'exec1x3', 'suspF']


def signature(tr):
    evs = [e for e in tr if not e['e'].startswith('#')]
    sc = next((e.get('name') for e in evs if e['e'] == 'Scenario'), '?')
    for e in evs:
        if e['e'] in ('Crash', 'Terminate'):
            return '%s:%s' % (sc, e['e'].lower())
    if any(e['e'] == 'Stuck' for e in evs):
        return '%s:stuck' % sc
    i = vlib.first_unexplained(SDY, 'TraceWake', 'TraceWake.cfg', evs, 'c02', linear=True)
    return '%s:first-unexplained=%s' % (sc, evs[i]['e'] if i is not None else '?')


def describe(tr):
    evs = [e for e in tr if not e['e'].startswith('#')]
    return ('recorded execution of real blocking calls is rejected by WakeAbs (%s) - nothing can run any more although a blocked thread\'s condition '
            'is satisfied or an enqueued task is pending: %s' % (signature(tr), json.dumps(evs)[:1400]))


def run(res, tier, seed):
    thorough = tier != 'quick'
    exe = vlib.build_harness('h_wake', ['sync/h_wake.cpp'])
    # ---- facts from the running code, then the protocol models
    p = vlib.sh([exe, 'probe'], timeout=120)
    try:
        facts = json.loads([l for l in p.stdout.splitlines() if l.startswith('{')][-1])
    except Exception:
        raise vlib.HarnessFailure('monitor probe failed: %s' % (p.stdout + p.stderr)[-1500:])
    res.extra['code_facts'] = facts
    fence_n = bool(facts['fence_notify_all'] and facts['fence_notify_one'])
    cfgs = ['Monitor_1x1_sc.cfg', 'Monitor_1x1_tso.cfg', 'Monitor_2x1_tso.cfg', 'Monitor_2x1_live.cfg'] + (['Monitor_2x2_tso.cfg'] if thorough else [])
    for cfg in cfgs:
        txt = open(os.path.join(SDY, cfg)).read().replace('CONSTANT FENCE_N = TRUE', 'CONSTANT FENCE_N = %s' % ('TRUE' if fence_n else 'FALSE')) \
                                             .replace('CONSTANT FENCE_W = TRUE', 'CONSTANT FENCE_W = %s' % ('TRUE' if facts['fence_w'] else 'FALSE'))
        gen = 'gen_' + cfg
        open(os.path.join(SDY, gen), 'w').write(txt)
        try:
            r = vlib.model_check(res, SDY, 'Monitor', gen, name='Monitor:' + cfg, must_hold=False, deadlock=False, timeout=2500)
        finally:
            os.unlink(os.path.join(SDY, gen))
        vlib.tlc_must_hold(r, cfg)
        if r.violation:
            if fence_n and facts['fence_w']:
                raise vlib.HarnessFailure('Monitor model violates %s with the default constants:\n%s' % (r.violation, r.out[-2000:]))
            # the access sequence of the code lacks a full fence the protocol needs: TLC's counterexample is the verdict (DESIGN 2.6)
            res.violation('monitor:tso-model:%s' % r.violation, 'with the memory-order facts observed on the running code (%s) the TSO model of concurrent_monitor '
                          'loses a wake-up (%s violated in %s)' % (json.dumps(facts), r.violation, cfg), {'tlc_counterexample': vlib.extract_error_trace(r.out)[-40:], 'facts': facts})
            break
    r = vlib.model_check(res, SDY, 'Monitor', 'Monitor_1x1_nofence.cfg', must_hold=False, deadlock=False)
    if r.violation != 'NoLostWakeup':
        raise vlib.HarnessFailure('vacuity control failed: the Monitor model without the notifier-side fence should lose a wake-up under TSO')
    # ---- sleepers on tbb::mutex / tbb::rw_mutex: the releasing side uses notify_*_relaxed; Monitor instantiated with the probed fact (see C08.unlock_fact_check)
    import C08
    C08.unlock_fact_check(res)
    # ---- task_arena::execute without a free slot: ExecSlot with the fact BATON extracted from the running code by a directed schedule
    p = vlib.sh([exe, 'probe_exec'], timeout=300)
    try:
        ef = json.loads([l for l in p.stdout.splitlines() if l.startswith('{')][-1])
    except Exception:
        raise vlib.HarnessFailure('execute probe failed: %s' % (p.stdout + p.stderr)[-1500:])
    if ef['baton'] not in (0, 1):
        raise vlib.HarnessFailure('execute probe inconclusive: %s' % ef.get('why'))
    res.extra['code_facts'].update({'exec_baton': ef['baton']})
    for cfg in ['ExecSlot_3x1.cfg', 'ExecSlot_3x1w.cfg', 'ExecSlot_3x2stay.cfg', 'ExecSlot_4x1.cfg'] + (['ExecSlot_4x2w.cfg'] if thorough else []):
        txt = open(os.path.join(SDS, cfg)).read().replace('CONSTANT BATON = TRUE', 'CONSTANT BATON = %s' % ('TRUE' if ef['baton'] else 'FALSE'))
        gen = 'gen_' + cfg; open(os.path.join(SDS, gen), 'w').write(txt)
        try:
            r = vlib.model_check(res, SDS, 'ExecSlot', gen, name='ExecSlot:' + cfg, must_hold=False, deadlock=True, timeout=2500)
        finally:
            os.unlink(os.path.join(SDS, gen))
        vlib.tlc_must_hold(r, cfg)
        if r.violation or r.deadlock:
            if ef['baton']:
                raise vlib.HarnessFailure('ExecSlot model fails with the default constants (%s)' % (r.violation or 'deadlock'))
            res.violation('execslot:model:no-baton', 'a caller of task_arena::execute that leaves the slot-wait loop without having entered the arena does not pass the wake-up on '
                          '(observed on the running code by a directed schedule); with that fact the ExecSlot model reaches a state where a caller sleeps for ever beside a free slot '
                          '(%s in %s)' % (r.violation or 'deadlock', cfg), {'tlc_counterexample': vlib.extract_error_trace(r.out)[-40:], 'facts': ef})
            break
    for cfg in ['ExecSlot_3x1w_nobaton.cfg', 'ExecSlot_3x1_noleave.cfg', 'ExecSlot_3x2stay_nofin.cfg']:       # vacuity controls: each notification is needed
        r = vlib.model_check(res, SDS, 'ExecSlot', cfg, must_hold=False, deadlock=True)
        if not (r.violation or r.deadlock):
            raise vlib.HarnessFailure('vacuity control failed: %s should deadlock or starve a caller' % cfg)
    schedlib.publish_fact_check(res, exe, ('resume_aborts_clear', 'enqueue_aborts_clear', 'clear_checked'))
    # PoolState with the fact "the busy marker of a clear transaction is unique" as observed on the running code
    pcfg = 'PoolState_2x2.cfg' if facts.get('busy_unique') else 'PoolState_2x2_shared.cfg'
    r = vlib.model_check(res, SDS, 'MCp', pcfg, must_hold=False, deadlock=False, timeout=1500)
    vlib.tlc_must_hold(r, pcfg)
    if r.violation:
        if facts.get('busy_unique'):
            raise vlib.HarnessFailure('PoolState model violates %s with the default constants' % r.violation)
        res.violation('poolstate:model:%s' % r.violation, 'arena::atomic_flag::try_clear_if marks its clear transaction with a value that is not unique per transaction (observed on the '
                      'running code); with that fact the PoolState model loses an enqueued task: a stale clear of one worker succeeds against the marker of another (ABA), the '
                      'arena is declared empty and its workers are recalled while the task sits in the FIFO stream', {'tlc_counterexample': vlib.extract_error_trace(r.out)[-40:], 'facts': facts})
    vlib.model_check(res, SDS, 'MCd', 'Demand_2.cfg', timeout=1500)
    if thorough:
        vlib.model_check(res, SDS, 'MCd', 'Demand_3.cfg', timeout=1500)
    # ---- enqueue container: every edge of TaskStream replayed on the real task_stream (population word and lane mutex flags compared per step)
    schedlib.replay_taskstream(res, 'C02', [('TaskStream_a.cfg', ['1', '1', '1'])] + ([('TaskStream_b.cfg', ['2', '1', '2'])] if thorough else []))
    # ---- real code
    n = 240 if not thorough else 4000; nh = 24 if not thorough else 400
    os.makedirs(os.path.join(vlib.BUILD, 'traces'), exist_ok=True)
    jobs = [(sc, 0, n if not sc.startswith('enq') else (n if sc in ('enq0', 'enq03') else n // 3)) for sc in SC_Q] + [(sc, 1, n) for sc in TSO] + [(sc, 0, nh) for sc in HOLD] + [(sc, 1, nh // 2) for sc in HOLD[:6]]
    cmds = []; tfs = []
    for k, (sc, tso, cnt) in enumerate(jobs):
        tf = os.path.join(vlib.BUILD, 'traces', 'c02-%s-%d-%d-%d.ndjson' % (sc, tso, k, os.getpid())); tfs.append(tf)
        cmds.append([exe, tf, sc, str(cnt), str(seed * 5003 + k * 211), str(tso)])
    ps = vlib.run_parallel(cmds, timeout=3000)
    tot = {}; execs = []
    for (sc, tso, cnt), p, tf in zip(jobs, ps, tfs):
        if p is None or p.returncode != 0:
            raise vlib.HarnessFailure('h_wake %s failed: %s' % (sc, (p.stdout + p.stderr)[-1500:] if p else 'timeout'))
        s = json.loads([l for l in p.stdout.splitlines() if l.startswith('{')][-1])
        for key, v in s.items():
            if isinstance(v, (int, float)) and key != 'wall':
                tot[key] = tot.get(key, 0) + v
        execs += vlib.collect_traces([tf])
    for t in execs:
        for e in t:
            if e['e'] == 'Stuck' and 'blocked' not in e:      # the forked child was killed by its watchdog: the harness itself hung, no verdict
                raise vlib.HarnessFailure('h_wake child hung outside scheduler control (watchdog): %s' % json.dumps([x for x in t if not x['e'].startswith('#')])[:800])
    vlib.validate_and_report(res, SDY, 'TraceWake', 'TraceWake.cfg', execs, 'c02-wake', describe, batch=300, sig_fn=signature,
                             group_fn=lambda t: next((e.get('name') for e in t if e['e'] == 'Scenario'), None))
    if not res.violations and any(e['e'] == 'Stuck' for t in execs for e in t):
        raise vlib.HarnessFailure('a scenario dead-locked by itself (Stuck explained by WakeAbs: every blocked thread waits for something really unavailable)')
    res.extra.update({'executions': tot.get('paths', 0), 'real_steps_executed': tot.get('steps', 0), 'futex_sleeps': tot.get('sleeps', 0), 'futex_wakes': tot.get('wakes', 0),
                      'stores_buffered_tso': tot.get('buffered', 0), 'worker_threads_scheduled': tot.get('workers', 0), 'scenarios': len(jobs)})
    res.exhaustive = False
    res.assumptions += ['real-code schedules: seeded random and PCT-style priority cooperative interleavings at atomic-access granularity (sampled, not TLC-enumerated)',
                        'OS futex semantics emulated by the cooperative scheduler (wait = atomic check-and-block, wake = make runnable); RML worker threads are logical threads too',
                        'TSO runs: every logical thread buffers its non-seq_cst stores in an emulated FIFO store buffer drained at random points (x86-TSO only)',
                        'library start-up (lazy statics) happens before the schedule is controlled']
