# C08 - mutexes: mutual exclusion, reader/writer rules, truthful upgrade, FIFO for queuing locks, no lost grant.
#   protocol specs (TLC, exhaustive):  SpinMutex, SpinRW, QueuingMutex, QueuingRW, RWMutex (sleeping paths)
#   binding 1: every edge of the TLC state graphs is replayed on the real lock objects, state word(s) compared per step
#   binding 2: property-level events of every execution (replayed + seeded random cooperative schedules, all eight lock
#              types) are validated by TLC against RWLockAbs (TraceRWLock) - the verdict.
import os, vlib
SD = os.path.join(vlib.SPEC, 'sync')
QRW_OPS = {'lockW': 'lock', 'lockR': 'lock_shared', 'tryW': 'try_lock', 'tryR': 'try_lock_shared', 'up': 'upgrade', 'down': 'downgrade', 'rel': 'rel'}

# (lock, module, cfg, projected vars, programs (harness op names), map lines)
STD_MAP = ['Loop 0', 'UP_chk 0', 'Fin 1']       # Fin: the harness-level schedule point that ends every operation (a held lock spans it)
QRW_MAP = ['Loop 0', 'Loop@lock 5', 'Loop@lock_shared 5', 'T1 6', 'D2 2', 'Fin 0', 'Fin2 1', 'Rr23 0', 'U9x 0', 'U29x 0', 'OPEND:Fin2 0']
QRW_VARS = ['tailp', 'tailf', 'prevp', 'prevf', 'nextp', 'nextf', 'st', 'going', 'il']


def qrw(p):
    return [','.join(QRW_OPS[o] for o in t) for t in p]


REPLAYS = {
    'quick': [
        ('spin_mutex', 'MCSpinMutex', 'SpinMutex_3.cfg', ['flag'], ['lock,rel,try_lock,rel', 'try_lock,rel,lock,rel', 'lock,rel'], STD_MAP),
        ('queuing_mutex', 'MCQueuingMutex', 'QueuingMutex_3.cfg', ['tail', 'next', 'going'], ['lock,rel,try_lock,rel', 'lock,rel', 'lock,rel'], STD_MAP),
        ('spin_rw_mutex', 'MCSpinRW', 'SpinRW_Up.cfg', ['m'], ['lock_shared,upgrade,rel', 'lock_shared,upgrade,rel', 'lock,rel'], STD_MAP),
        ('spin_rw_mutex', 'MCSpinRW', 'SpinRW_Try.cfg', ['m'], ['try_lock,downgrade,rel', 'try_lock_shared,upgrade,rel', 'lock,downgrade,rel'], STD_MAP),
        ('spin_rw_mutex', 'MCSpinRW', 'SpinRW_TryA.cfg', ['m'], ['try_lock_shared,rel', 'try_lock_shared,rel', 'lock,rel'], STD_MAP),
        ('spin_rw_mutex', 'MCSpinRW', 'SpinRW_TryB.cfg', ['m'], ['lock_shared,upgrade,rel', 'try_lock_shared,rel', 'try_lock_shared,rel'], STD_MAP),
        ('queuing_rw_mutex', 'MCQueuingRW', 'QueuingRW_PU2.cfg', QRW_VARS, qrw([['lockR', 'up', 'rel'], ['lockR', 'up', 'rel']]), QRW_MAP),
        ('queuing_rw_mutex', 'MCQueuingRW', 'QueuingRW_PF2.cfg', QRW_VARS, qrw([['lockW', 'rel'], ['lockW', 'rel'], ['lockR', 'rel']]), QRW_MAP),
        # a downgrade / an upgrade with conflicting requests queued behind the holder
        ('queuing_rw_mutex', 'MCQueuingRW', 'QueuingRW_PD.cfg', QRW_VARS, qrw([['lockW', 'down', 'rel'], ['lockR', 'rel'], ['lockW', 'rel']]), QRW_MAP),
        ('queuing_rw_mutex', 'MCQueuingRW', 'QueuingRW_PUW.cfg', QRW_VARS, qrw([['lockR', 'up', 'rel'], ['lockW', 'rel'], ['tryR', 'rel']]), QRW_MAP),
    ],
    'thorough': [
        # 1.6e6 states / 4.2e6 edges: 4-5 operations per thread incl. upgrade + downgrade, try reader that upgrades, re-acquisition in the other mode (5-6 min)
        ('spin_rw_mutex', 'MCSpinRW', 'SpinRW_Big.cfg', ['m'], ['lock_shared,upgrade,downgrade,rel', 'try_lock_shared,upgrade,rel,lock,rel', 'lock,rel,lock_shared,rel'], STD_MAP),
        ('spin_mutex', 'MCSpinMutex', 'SpinMutex_4.cfg', ['flag'], ['lock,rel,lock,rel', 'try_lock,rel,lock,rel', 'lock,rel,try_lock,rel', 'lock,rel'], STD_MAP),
        ('queuing_mutex', 'MCQueuingMutex', 'QueuingMutex_3b.cfg', ['tail', 'next', 'going'], ['lock,rel,lock,rel', 'lock,rel,lock,rel', 'try_lock,rel,lock,rel'], STD_MAP),
        ('queuing_rw_mutex', 'MCQueuingRW', 'QueuingRW_PF.cfg', QRW_VARS, qrw([['lockR', 'rel'], ['lockW', 'rel'], ['lockR', 'rel']]), QRW_MAP),
        ('queuing_rw_mutex', 'MCQueuingRW', 'QueuingRW_PT.cfg', QRW_VARS, qrw([['tryW', 'down', 'rel'], ['tryR', 'up', 'rel'], ['lockR', 'rel']]), QRW_MAP),
    ],
}
MODELS = {
    'quick': [('MCRWMutex', 'RWMutex_P2.cfg'), ('MCRWMutex', 'RWMutex_PA.cfg'), ('MCQueuingRW', 'QueuingRW_PT.cfg')],
    'thorough': [('MCRWMutex', 'RWMutex_PC.cfg'), ('MCRWMutex', 'RWMutex_PB.cfg'), ('MCQueuingRW', 'QueuingRW_PU.cfg')],
}
EXCL = ['lock,rel,try_lock,rel', 'try_lock,rel,lock,rel', 'lock,rel,lock,rel']
RWP1 = ['lock_shared,upgrade,rel', 'lock_shared,upgrade,rel', 'lock,downgrade,rel']
RWP2 = ['try_lock,downgrade,rel,lock_shared,rel', 'try_lock_shared,upgrade,rel', 'lock,rel,lock_shared,upgrade,downgrade,rel', 'lock_shared,rel,lock,rel']
RWP3 = ['try_lock_shared,rel,try_lock_shared,rel', 'try_lock_shared,rel,try_lock,rel', 'lock,rel,lock_shared,upgrade,rel', 'lock_shared,upgrade,rel']    # try operations racing acquisitions / an upgrade
RANDOM = [('spin_mutex', EXCL), ('queuing_mutex', EXCL), ('mutex', EXCL), ('speculative_spin_mutex', EXCL),
          ('spin_rw_mutex', RWP1), ('spin_rw_mutex', RWP2), ('queuing_rw_mutex', RWP1), ('queuing_rw_mutex', RWP2),
          ('rw_mutex', RWP1), ('rw_mutex', RWP2), ('speculative_spin_rw_mutex', RWP1), ('speculative_spin_rw_mutex', RWP2),
          ('spin_rw_mutex', RWP3), ('queuing_rw_mutex', RWP3), ('rw_mutex', RWP3), ('speculative_spin_rw_mutex', RWP3)]


def describe(lock):
    def d(tr):
        return ('recorded execution of the real %s is not a behaviour of RWLockAbs (exclusion / upgrade truthfulness / FIFO / '
                'visibility / lost hand-off); events: %s' % (lock, ' '.join('%s(%s)' % (e['e'], e.get('t', '')) for e in tr[:30])))
    return d


def unlock_fact_check(res, exe=None):
    """tbb::mutex / tbb::rw_mutex wake sleepers with notify_*_relaxed (no fence before the wait-set is read): the Monitor model is instantiated with FENCE_N = FALSE
    and CLIENT_SC = the fact 'the releasing write of every unlock / unlock_shared / downgrade is a full operation', probed on the running code (h_locks probe_unlock)"""
    import json
    exe = exe or vlib.build_harness('h_locks', ['locks/h_locks.cpp'])
    p = vlib.sh([exe, 'probe_unlock'], timeout=120)
    try:
        f = json.loads([l for l in p.stdout.splitlines() if l.startswith('{')][-1])
    except Exception:
        raise vlib.HarnessFailure('unlock probe failed: %s' % (p.stdout + p.stderr)[-1500:])
    if any(v not in (0, 1) for v in f.values()):
        raise vlib.HarnessFailure('unlock probe inconclusive: %s' % f)
    res.extra.setdefault('code_facts', {}).update(f)
    full = all(f.values())
    for cfg in ['Monitor_1x1_lock.cfg', 'Monitor_2x1_lock.cfg']:
        txt = open(os.path.join(SD, cfg)).read().replace('CONSTANT CLIENT_SC = TRUE', 'CONSTANT CLIENT_SC = %s' % ('TRUE' if full else 'FALSE'))
        gen = 'gen_' + cfg; open(os.path.join(SD, gen), 'w').write(txt)
        try:
            r = vlib.model_check(res, SD, 'Monitor', gen, name='Monitor:' + cfg, must_hold=False, deadlock=False, timeout=1500)
        finally:
            os.unlink(os.path.join(SD, gen))
        vlib.tlc_must_hold(r, cfg)
        if r.violation:
            if full:
                raise vlib.HarnessFailure('Monitor model (lock instantiation) violates %s with the default constants' % r.violation)
            who = ', '.join(k[:-5] for k, v in f.items() if not v)
            res.violation('locks:tso-model:%s' % r.violation, 'the releasing write of %s is not a full operation (observed on the running code: a plain / release store, no fence before the wait-set is '
                          'read by notify_*_relaxed); with that fact the TSO model of the sleeping path loses a wake-up: the store is still buffered when the releaser sees an empty wait-set, the '
                          'only waiter registers, still reads "locked" and sleeps on a free lock (%s violated in %s)' % (who, r.violation, cfg),
                          {'tlc_counterexample': vlib.extract_error_trace(r.out)[-40:], 'facts': f})
            break
    r = vlib.model_check(res, SD, 'Monitor', 'Monitor_1x1_nofence.cfg', must_hold=False, deadlock=False)
    if r.violation != 'NoLostWakeup':
        raise vlib.HarnessFailure('vacuity control failed: the Monitor model with a buffered releasing store and no notifier-side fence should lose a wake-up under TSO')


def run(res, tier, seed):
    exe = vlib.build_harness('h_locks', ['locks/h_locks.cpp'])
    unlock_fact_check(res, exe)
    tiers = ['quick'] if tier == 'quick' else ['quick', 'thorough']
    res.assumptions += ['x86-TSO hardware; replay is sequentially consistent at schedule-point granularity (one atomic access per step)',
                        'RTM speculative locks run in whatever mode the CPU offers (fall-back expected)',
                        'OS futex semantics trusted (emulated by the cooperative scheduler)']
    drift = 0; edges_total = 0; edges_cov = 0; steps = 0
    for tr_ in tiers:
        for module, cfg in MODELS[tr_]:
            vlib.model_check(res, SD, module, cfg, timeout=3000 if tr_ == 'thorough' else 900)
    for tr_ in tiers:
        for k, (lock, module, cfg, vars_, progs, maplines) in enumerate(REPLAYS[tr_]):
            tag = 'c08-%s-%s' % (lock, cfg[:-4])
            sched, npaths, cov, tot, r = vlib.graph_schedules(res, SD, module, cfg, vars_, tag)
            mapf = os.path.join(vlib.BUILD, 'graphs', tag + '.map'); open(mapf, 'w').write('\n'.join(maplines) + '\n')
            sums, tfs = vlib.run_harness_parallel(lambda part, tf: [exe, lock, 'replay', part, tf, mapf] + progs, sched, tag)
            s = vlib.sum_dicts(sums)
            drift += s['drift'] + s['state_mismatch']; edges_total += tot; edges_cov += cov; steps += s['steps']
            execs = vlib.collect_traces(tfs)
            vlib.validate_and_report(res, SD, 'TraceRWLock', 'TraceRWLock.cfg', execs, tag, describe(lock))
            vlib.log('%s: %d states, %d/%d edges in %d schedules, %d real steps, drift %d, mismatch %d, stuck %d'
                     % (tag, r.distinct, cov, tot, npaths, s['steps'], s['drift'], s['state_mismatch'], s['stuck']))
            os.unlink(sched)
    nseeds = 150 if tier == 'quick' else 3000
    os.makedirs(os.path.join(vlib.BUILD, 'traces'), exist_ok=True)
    cmds = []; tfs = []
    for k, (lock, progs) in enumerate(RANDOM):
        tf = os.path.join(vlib.BUILD, 'traces', 'c08-rand-%d-%d.ndjson' % (os.getpid(), k)); tfs.append(tf)
        cmds.append([exe, lock, 'random', str(nseeds), str(seed * 100003 + k * 7919), tf] + progs)
    ps = vlib.run_parallel(cmds, timeout=3000)
    for (lock, progs), p, tf in zip(RANDOM, ps, tfs):
        if p is None or p.returncode != 0:
            raise vlib.HarnessFailure('random run of %s failed: %s' % (lock, (p.stdout + p.stderr)[-2000:] if p else 'timeout'))
        execs = vlib.collect_traces([tf])
        steps += vlib.sum_dicts([__import__('json').loads([l for l in p.stdout.splitlines() if l.startswith('{')][-1])])['steps']
        vlib.validate_and_report(res, SD, 'TraceRWLock', 'TraceRWLock.cfg', execs, 'c08-random-%s' % lock, describe(lock))
    res.extra.update({'spec_edges_replayed': edges_cov, 'spec_edges_total': edges_total, 'drift_steps': drift,
                      'real_steps_executed': steps, 'random_schedules_per_scenario': nseeds,
                      'locks': sorted(set(x[0] for x in RANDOM))})
    res.exhaustive = (edges_cov == edges_total)
    if drift:
        print('SPEC-DRIFT property=C08 steps=%d (protocol spec and code disagree; not an alarm, see evidence)' % drift)
