# C04 - cancellation reaches every descendant context and nothing else; one winner.
#   protocol spec: spec/ctx/CtxTree.tla (bind_to_impl vs cancel_group_execution / disseminator, both mutexes as in the code)
#   facts from the code (probe): does the propagator hold the_context_state_propagation_mutex?  -> constant FIXPM
#   binding 1: every edge of the TLC state graph is replayed on real task_group_context objects / thread_data lists
#   binding 2: the recorded executions (Ctx/Bound/CancelRet/Final events) are validated by TLC against CtxAbs - the verdict
import os, re, json, vlib
SD = os.path.join(vlib.SPEC, 'ctx')
VARS = ['cancel', 'hint', 'cstate', 'gepoch', 'lepoch', 'tlm', 'pm', 'lm']
CST = {'created': 0, 'locked': 1, 'isolated': 2, 'bound': 3}


def rec(txt):
    return dict((k, v.strip('"')) for k, v in re.findall(r'(\w+) \|-> ("?\w+"?)', txt))


def project(raw):
    v = dict(zip(VARS, raw.split('\x1f')))
    c = rec(v['cancel']); h = rec(v['hint']); le = rec(v['lepoch']); lm = rec(v['lm'])
    out = [c[x] for x in 'GPSC'] + [h[x] for x in 'GPSC'] + [str(CST[v['cstate'].strip('"')]), v['gepoch'].strip()]
    out += [le[t] for t in ('X', 'B', 'A1', 'A2')]
    out += ['0' if v['tlm'].strip('"') == 'free' else '1', '0' if v['pm'].strip('"') == 'free' else '1']
    out += ['0' if lm[t] == 'free' else '1' for t in ('X', 'B', 'A1', 'A2')]
    return ','.join(out)


# (name, cancellers, Tgt operator, Order operator, order list, targets)
SCEN = {
    'quick': [('T_P_ABX', '{"A1"}', 'TgtP', 'OABX', 'A1,B,X', 'A1=P'),      # T_ = TSO variant (store buffer on the binder)
              ('T_P_BXA', '{"A1"}', 'TgtP', 'OBXA', 'B,X,A1', 'A1=P'),
              ('T_G_ABX', '{"A1"}', 'TgtG', 'OABX', 'A1,B,X', 'A1=G'),
              ('G_ABX', '{"A1"}', 'TgtG', 'OABX', 'A1,B,X', 'A1=G'),
              ('G_XBA', '{"A1"}', 'TgtG', 'OXBA', 'X,B,A1', 'A1=G'),
              ('G_BXA', '{"A1"}', 'TgtG', 'OBXA', 'B,X,A1', 'A1=G'),
              ('P_ABX', '{"A1"}', 'TgtP', 'OABX', 'A1,B,X', 'A1=P'),
              ('GG_4a', '{"A1","A2"}', 'TgtGG', 'O4a', 'A2,A1,B,X', 'A1=G,A2=G'),
              ('R_G_ABX', '{"A1"}', 'TgtG', 'OABX', 'A1,B,X', 'A1=G'),            # R_ = C is bound under the parentless context G (register first, then copy)
              ('R_G_XBA', '{"A1"}', 'TgtG', 'OXBA', 'X,B,A1', 'A1=G'),
              ('R_G_BXA', '{"A1"}', 'TgtG', 'OBXA', 'B,X,A1', 'A1=G')],
    'thorough': [('GP_4a', '{"A1","A2"}', 'TgtGP', 'O4a', 'A2,A1,B,X', 'A1=G,A2=P'),
                 ('GP_4b', '{"A1","A2"}', 'TgtGP', 'O4b', 'B,A2,X,A1', 'A1=G,A2=P'),
                 ('P_BXA', '{"A1"}', 'TgtP', 'OBXA', 'B,X,A1', 'A1=P')],
}


ROOTCOPY = ['set-only']        # fact probed from the running code (set in run())


def write_cfg(name, canc, tgt, order, fixpm, inv, hintsc=False):
    fn = os.path.join(SD, '_gen_%s%s.cfg' % (name, '_inv' if inv else ''))
    with open(fn, 'w') as f:
        f.write('SPECIFICATION Spec\nCONSTANT Cancellers = %s\nCONSTANT Tgt <- %s\nCONSTANT Order <- %s\nCONSTANT FIXPM = %s\nCONSTANT HINTSC = %s\nCONSTANT BindTo = "%s"\nCONSTANT ROOTCOPY = "%s"\n'
                % (canc, tgt, order, 'TRUE' if fixpm else 'FALSE', 'TRUE' if hintsc else 'FALSE', 'G' if name.startswith('R_') else 'P', ROOTCOPY[0]))
        if inv:
            f.write('INVARIANT Reaches\nINVARIANT NothingElse\nINVARIANT OneWinner\n')
    return os.path.basename(fn)


def signature(tr):
    fin = [e for e in tr if e['e'] == 'Final']
    if not fin:
        return 'stuck'
    f = fin[0]
    tg = sorted(set(e['c'] for e in tr if e['e'] == 'CancelRet'))
    return 'final:%s:targets=%s' % (''.join('%s%d' % (k, f[k]) for k in 'GPSC' if k in f), '+'.join(tg))


def describe(tr):
    return ('recorded execution of the real task_group_context code is rejected by CtxAbs: after all cancel calls and bindings returned, '
            'the cancelled set is not the closure of the targets (or not exactly one winner). events: ' + json.dumps(tr))


def run(res, tier, seed):
    exe = vlib.build_harness('h_ctx', ['ctx/h_ctx.cpp'])
    p = vlib.sh([exe, 'probe'], timeout=120)
    if p.returncode != 0:
        raise vlib.HarnessFailure('probe failed: ' + p.stderr[-1000:])
    facts = json.loads([l for l in p.stdout.splitlines() if l.startswith('{')][-1])
    fixpm = bool(facts['propagator_locks_pm']); hintsc = bool(facts['hint_store_seq_cst']); ROOTCOPY[0] = 'always' if facts.get('root_copy_always') else 'set-only'
    res.extra['facts_from_code'] = facts
    res.assumptions += ['sequentially consistent replay (TSO variant: see DESIGN 6.2)', 'mutex acquisitions are atomic steps (mutex correctness is C08)',
                        'context trees G<-{P,S}, C bound under P; 1-2 cancellers; all propagator walk orders listed']
    mapl = ['c4 2', 'c4p %d' % (1 if fixpm else 0), 'c7 2', 'c8d 0', 'c11p %d' % (1 if fixpm else 0), 'cDone 0', 'b7 2', 'r7 2', 'bx 0', 'd1 0']
    mapf = os.path.join(vlib.BUILD, 'c04.map'); os.makedirs(vlib.BUILD, exist_ok=True); open(mapf, 'w').write('\n'.join(mapl) + '\n')
    tiers = ['quick'] if tier == 'quick' else ['quick', 'thorough']
    drift = 0; ec = et = 0; model_viol = []
    for tr_ in tiers:
        for (name, canc, tgt, order, olist, tgts) in SCEN[tr_]:
            # design-level verdict of the model instantiated with the facts observed in the code
            tso = name.startswith('T_'); module = 'MCCtxTSO' if tso else 'MCCtx'; hargs = ['tso'] if tso else (['bindG'] if name.startswith('R_') else [])
            cfg_inv = write_cfg(name, canc, tgt, order, fixpm, True, hintsc)
            r = vlib.tlc(SD, module, cfg_inv, workers=4)
            res.add_tlc(r, '%s:%s(FIXPM=%s,HINTSC=%s)' % (module, name, fixpm, hintsc))
            if r.violation:
                model_viol.append('%s:%s' % (name, r.violation))
            # full graph (no invariants, so violating states are included) -> edge cover -> replay on the real code
            cfg = write_cfg(name, canc, tgt, order, fixpm, False, hintsc)
            tag = 'c04-' + name
            dot = os.path.join(vlib.BUILD, 'graphs', tag + '.dot'); os.makedirs(os.path.dirname(dot), exist_ok=True)
            r2 = vlib.tlc(SD, module, cfg, workers=4, dump=dot)
            vlib.tlc_must_hold(r2, tag)
            nodes, edges, init = vlib.parse_dot(dot, VARS, raw=True)
            nodes = dict((k, project(v)) for k, v in nodes.items())
            paths, cov, tot = vlib.edge_cover(nodes, edges, init)
            sched = os.path.join(vlib.BUILD, 'graphs', tag + '.sched'); vlib.write_schedules(paths, sched); os.unlink(dot)
            sums, tfs = vlib.run_harness_parallel(lambda part, tf: [exe, 'replay', part, tf, mapf, olist, tgts] + hargs, sched, tag, timeout=600)
            s = vlib.sum_dicts(sums); drift += s['drift'] + s['state_mismatch']; ec += cov; et += tot
            execs = vlib.collect_traces(tfs)
            vlib.validate_and_report(res, SD, 'TraceCtx', 'TraceCtx.cfg', execs, tag, describe, sig_fn=signature)
            vlib.log('%s: %d states, %d/%d edges in %d schedules, %d real steps, drift %d, mismatch %d, stuck %d'
                     % (tag, r2.distinct, cov, tot, len(paths), s['steps'], s['drift'], s['state_mismatch'], s['stuck']))
            os.unlink(sched)
            for f in (cfg, cfg_inv):
                os.unlink(os.path.join(SD, f))
    # seeded random cooperative schedules over ALL atomics of the same scenarios (no focus set)
    n = 300 if tier == 'quick' else 5000
    cmds = []; tfs = []
    allsc = [s for t in tiers for s in SCEN[t]]
    for k, (name, canc, tgt, order, olist, tgts) in enumerate(allsc):
        tf = os.path.join(vlib.BUILD, 'traces', 'c04-rand-%d-%d.ndjson' % (os.getpid(), k)); tfs.append(tf)
        cmds.append([exe, 'random', str(n), str(seed * 7919 + k), tf, olist, tgts] + (['tso'] if name.startswith('T_') else ['bindG'] if name.startswith('R_') else []))
    for (sc, pp, tf) in zip(allsc, vlib.run_parallel(cmds, timeout=1500), tfs):
        if pp is None or pp.returncode != 0:
            raise vlib.HarnessFailure('random run failed: %s' % ((pp.stdout + pp.stderr)[-1500:] if pp else 'timeout'))
        vlib.validate_and_report(res, SD, 'TraceCtx', 'TraceCtx.cfg', vlib.collect_traces([tf]), 'c04-random-' + sc[0], describe, sig_fn=signature)
    res.extra.update({'spec_edges_replayed': ec, 'spec_edges_total': et, 'drift_steps': drift, 'model_invariant_violations': model_viol,
                      'random_schedules_per_scenario': n})
    res.exhaustive = (ec == et)
    if model_viol:
        print('MODEL-VIOLATION property=C04 (design level, model instantiated with the facts observed in the code): %s' % ', '.join(model_viol))
    if drift:
        print('SPEC-DRIFT property=C04 steps=%d' % drift)
