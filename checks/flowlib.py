# shared driver of the flow-graph checks (C14, C15): runs h_flow scenarios, validates their traces by TLC against FlowAbs (TraceFlow.tla)
import os, json, vlib
SD = os.path.join(vlib.SPEC, 'flow')
_memo = {}


def signature(tr):
    key = json.dumps(tr, sort_keys=True)
    if key in _memo:
        return _memo[key]
    evs = [e for e in tr if not e['e'].startswith('#')]
    sc = next((e.get('name') for e in evs if e['e'] == 'Scenario'), '?')
    sig = None
    for e in evs:
        if e['e'] in ('Stuck', 'Crash', 'Terminate', 'Escaped'):
            sig = '%s:%s' % (sc, e['e'].lower()); break
    if sig is None:
        i = vlib.first_unexplained(SD, 'TraceFlow', 'TraceFlow.cfg', evs, 'flow', linear=True)
        sig = '%s:first-unexplained=%s' % (sc, (evs[i]['e'] + ('(n=%s)' % evs[i]['n'] if 'n' in evs[i] else '')) if i is not None else '?')
    _memo[key] = sig
    return sig


def run_scenarios(res, pid, scenarios, n, seed):
    exe = vlib.build_harness('h_flow', ['flow/h_flow.cpp'])
    os.makedirs(os.path.join(vlib.BUILD, 'traces'), exist_ok=True)
    cmds = []; tfs = []
    for k, sc in enumerate(scenarios):
        tf = os.path.join(vlib.BUILD, 'traces', '%s-flow-%s-%d.ndjson' % (pid, sc, os.getpid())); tfs.append(tf)
        cmds.append([exe, tf, sc, str(n), str(seed * 6007 + k * 89)])
    ps = vlib.run_parallel(cmds, timeout=3000)
    execs = []; steps = 0; nexec = 0
    for p, tf, c in zip(ps, tfs, cmds):
        if p is None or p.returncode != 0:
            raise vlib.HarnessFailure('h_flow failed (%s): %s' % (c[2], (p.stdout + p.stderr)[-1500:] if p else 'timeout'))
        s = json.loads([l for l in p.stdout.splitlines() if l.startswith('{')][-1]); steps += s['steps']; nexec += s['paths']
        execs += vlib.collect_traces([tf])
    for t in execs:
        if any(e['e'] == 'Stuck' and e.get('rc') == 'watchdog' for e in t):
            raise vlib.HarnessFailure('h_flow child hung outside scheduler control (watchdog)')
    vlib.validate_and_report(res, SD, 'TraceFlow', 'TraceFlow.cfg', execs, pid.lower() + '-flow',
                             lambda tr: 'recorded execution of a real flow graph is rejected by FlowAbs (%s): %s' % (signature(tr), json.dumps([e for e in tr if not e['e'].startswith('#')])[:1500]),
                             batch=150, sig_fn=signature, group_fn=lambda t: next((e.get('name') for e in t if e['e'] == 'Scenario'), None))
    res.extra.update({'executions': nexec, 'real_steps_executed': steps, 'schedules_per_scenario': n, 'scenarios': len(scenarios)})
    res.exhaustive = False
    res.assumptions += ['real-code schedules: seeded random / PCT cooperative interleavings at atomic-access granularity on 3 logical threads of an all-reserved arena (sampled, not TLC-enumerated)',
                        'only one thread calls wait_for_all, after all external try_put calls have returned; the other threads execute graph tasks']
