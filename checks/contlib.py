# shared driver for the container linearizability checks (C10, C12, C13): runs h_cont scenarios, validates histories by TLC
import os, json, vlib
SD = os.path.join(vlib.SPEC, 'cont')


def first_bad(module, evs, tag):
    i = vlib.first_unexplained(SD, module, module + '.cfg', evs, tag)
    if i is None:
        return 'rejected'
    e = evs[i]
    if e['e'] == 'Res':
        op = next((x.get('op') for x in reversed(evs[:i]) if x['e'] == 'Inv' and x['t'] == e['t']), '?')
        return 'first-unexplained=Res(%s,%s)' % (op, e['r'])
    return 'first-unexplained=%s' % e['e']


def make_sig(module, tag):
    def signature(tr):
        evs = [e for e in tr if not e['e'].startswith('#')]
        for e in evs:
            if e['e'] in ('Stuck', 'Crash', 'Terminate'):
                return e['e'].lower()
        return first_bad(module, evs, tag)
    return signature


def run_scenarios(res, pid, module, scenarios, n, seed, what):
    """scenarios: list of (name, kind, hash, programs)"""
    exe = vlib.build_harness('h_cont', ['cont/h_cont.cpp'])
    os.makedirs(os.path.join(vlib.BUILD, 'traces'), exist_ok=True)
    cmds = []; tfs = []
    for k, (name, kind, hsh, progs) in enumerate(scenarios):
        tf = os.path.join(vlib.BUILD, 'traces', '%s-%s-%d.ndjson' % (pid, name, os.getpid())); tfs.append(tf)
        cmds.append([exe, kind, str(n), str(seed * 4001 + k), tf, hsh] + progs)
    ps = vlib.run_parallel(cmds, timeout=2500)
    steps = 0; nexec = 0
    sig = make_sig(module, pid.lower())

    def describe(tr):
        return 'recorded history of the real %s is rejected by %s (%s): %s' % (what, module, sig(tr), json.dumps([e for e in tr if not e['e'].startswith('#')])[:1400])
    for (name, kind, hsh, progs), pp, tf in zip(scenarios, ps, tfs):
        if pp is None or pp.returncode != 0:
            raise vlib.HarnessFailure('h_cont %s failed: %s' % (name, (pp.stdout + pp.stderr)[-1500:] if pp else 'timeout'))
        s = json.loads([l for l in pp.stdout.splitlines() if l.startswith('{')][-1]); steps += s['steps']; nexec += s['paths']
        vlib.validate_and_report(res, SD, module, module + '.cfg', vlib.collect_traces([tf]), '%s-%s' % (pid.lower(), name), describe, batch=150,
                                 sig_fn=lambda tr, name=name, kind=kind: '%s:%s' % ('pqfault' if kind.startswith('pqfault') else name, sig(tr)))
    res.extra.update({'executions': nexec, 'real_steps_executed': steps, 'schedules_per_scenario': n, 'scenarios': len(scenarios)})
    res.exhaustive = False
    res.assumptions += ['real-code schedules: seeded random cooperative interleavings at atomic-access granularity over every atomic of the container (not TLC-enumerated)',
                        'sequentially consistent replay; 2-4 threads; <= 6 operations per thread']
