# shared driver for the container linearizability checks (C10, C12, C13): runs h_cont scenarios, validates histories by TLC
import os, re, json, vlib
SD = os.path.join(vlib.SPEC, 'cont')


def first_bad(module, evs, tag):
    i = vlib.first_unexplained(SD, module, module + '.cfg', evs, tag)
    if i is None:
        return 'rejected'
    e = evs[i]
    if e['e'] == 'Res':
        op = next((x.get('op') for x in reversed(evs[:i]) if x['e'] == 'Inv' and x['t'] == e['t']), '?')
        return 'first-unexplained=Res(%s,%s)' % (op, e['r'])
    return 'first-unexplained=%s' % e['e']


def make_sig(module, tag):
    def signature(tr):
        evs = [e for e in tr if not e['e'].startswith('#')]
        for e in evs:
            if e['e'] in ('Stuck', 'Crash', 'Terminate'):
                return e['e'].lower()
        return first_bad(module, evs, tag)
    return signature


def run_scenarios(res, pid, module, scenarios, n, seed, what):
    """scenarios: list of (name, kind, hash, programs)"""
    exe = vlib.build_harness('h_cont', ['cont/h_cont.cpp'])
    os.makedirs(os.path.join(vlib.BUILD, 'traces'), exist_ok=True)
    cmds = []; tfs = []
    for k, (name, kind, hsh, progs) in enumerate(scenarios):
        tf = os.path.join(vlib.BUILD, 'traces', '%s-%s-%d.ndjson' % (pid, name, os.getpid())); tfs.append(tf)
        cmds.append([exe, kind, str(n), str(seed * 4001 + k), tf, hsh] + progs)
    ps = vlib.run_parallel(cmds, timeout=2500)
    steps = 0; nexec = 0
    sig = make_sig(module, pid.lower())

    def describe(tr):
        return 'recorded history of the real %s is rejected by %s (%s): %s' % (what, module, sig(tr), json.dumps([e for e in tr if not e['e'].startswith('#')])[:1400])
    for (name, kind, hsh, progs), pp, tf in zip(scenarios, ps, tfs):
        if pp is None or pp.returncode != 0:
            raise vlib.HarnessFailure('h_cont %s failed: %s' % (name, (pp.stdout + pp.stderr)[-1500:] if pp else 'timeout'))
        s = json.loads([l for l in pp.stdout.splitlines() if l.startswith('{')][-1]); steps += s['steps']; nexec += s['paths']
        vlib.validate_and_report(res, SD, module, module + '.cfg', vlib.collect_traces([tf]), '%s-%s' % (pid.lower(), name), describe, batch=150,
                                 sig_fn=lambda tr, name=name, kind=kind: '%s:%s' % ('pqfault' if kind.startswith('pqfault') else name, sig(tr)))
    res.extra.update({'executions': nexec, 'real_steps_executed': steps, 'schedules_per_scenario': n, 'scenarios': len(scenarios)})
    res.exhaustive = False
    res.assumptions += ['real-code schedules: seeded random cooperative interleavings at atomic-access granularity over every atomic of the container (not TLC-enumerated)',
                        'sequentially consistent replay; 2-4 threads; <= 6 operations per thread']


def replay_aggregator(res, pid, cfgs):
    """every edge of AggrCore (cfg, threads, ops per thread) replayed on the real aggregator_generic; TraceAggr is the verdict"""
    exe = vlib.build_harness('h_aggr', ['cont/h_aggr.cpp'])
    os.makedirs(os.path.join(vlib.BUILD, 'graphs'), exist_ok=True)
    for cfg, nth, nops in cfgs:
        tag = pid.lower() + '-' + cfg[:-4]
        dot = os.path.join(vlib.BUILD, 'graphs', tag + '.dot')
        r = vlib.tlc(SD, 'AggrCore', cfg, dump=dot, deadlock=False, timeout=3000, xmx='24g'); res.add_tlc(r, 'AggrCore:' + cfg); vlib.tlc_must_hold(r, cfg)
        if r.violation:
            raise vlib.HarnessFailure('AggrCore model violates %s' % r.violation)
        nodes, edges, init = vlib.parse_dot(dot, ['pending', 'busy', 'status', 'nxt'], raw=True); os.unlink(dot)

        def conv(v):
            f = v.split('\x1f'); st = dict(re.findall(r'(\d+) :> (\d+)', f[2])); nx = dict(re.findall(r'(\d+) :> (\d+)', f[3]))
            return '%s,%s|%s' % (f[0].strip(), f[1].strip(), ','.join('%s/%s' % (st[k], nx[k]) for k in sorted(st, key=int)))
        nodes = {k: conv(v) for k, v in nodes.items()}
        paths, cov, tot = vlib.edge_cover(nodes, edges, init)
        sched = os.path.join(vlib.BUILD, 'graphs', tag + '.sched'); vlib.write_schedules(paths, sched)
        sums, tfs = vlib.run_harness_parallel(lambda part, tf: [exe, part, tf, str(nth), str(nops)], sched, tag, timeout=2500)
        ssum = vlib.sum_dicts(sums); os.unlink(sched)
        vlib.validate_and_report(res, SD, 'TraceAggr', 'TraceAggr.cfg', vlib.collect_traces(tfs), tag,
                                 lambda tr: 'replay of AggrCore on the real aggregator: an operation was handled twice / never / outside a handler invocation, two handlers overlapped, or a caller returned before its operation was handled: ' + json.dumps([e for e in tr if not e['e'].startswith('#')])[:1200],
                                 sig_fn=lambda tr: 'aggregator:' + ('stuck' if any(e['e'] == 'Stuck' for e in tr) else 'protocol'))
        vlib.log('%s: %d states, %d/%d edges in %d schedules, %d real steps, drift %d, mismatch %d' % (tag, r.distinct, cov, tot, len(paths), ssum['steps'], ssum['drift'], ssum['state_mismatch']))
        res.extra['spec_edges_replayed'] = res.extra.get('spec_edges_replayed', 0) + cov; res.extra['spec_edges_total'] = res.extra.get('spec_edges_total', 0) + tot
        res.extra['drift_steps'] = res.extra.get('drift_steps', 0) + ssum['drift'] + ssum['state_mismatch']
        if ssum['drift'] + ssum['state_mismatch']:
            print('SPEC-DRIFT property=%s aggregator replay: %d paths disagree with AggrCore.tla' % (pid, ssum['drift'] + ssum['state_mismatch']))
