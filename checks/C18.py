# C18 - tbbmalloc fails cleanly; memory pools stay inside and give back their raw memory.
#   abstract spec: malloc/PoolAbs (regions per pool from the pool's own raw allocator, blocks inside them, identify, fixed pools call the raw
#   allocator once, regions returned exactly once and never while in use, nothing left after destroy; a refused request is reported, live blocks
#   stay intact, a later request succeeds).  Real memory pools with instrumented raw callbacks (plain, fixed, runs of failing raw allocations at a
#   seed-chosen call index), the default pool with a window of failing OS mappings (mmap seam of the white-box build) and unrepresentable sizes /
#   alignments on every C entry point are validated by TLC (TracePool).
import os, json, vlib, C17
SD = C17.SD


def run(res, tier, seed):
    thorough = tier != 'quick'
    exe = C17.build()
    os.makedirs(os.path.join(vlib.BUILD, 'traces'), exist_ok=True)
    n = 300 if not thorough else 6000
    jobs = [('pool', 'plain', n), ('pool', 'fixed', n), ('pool', 'fail', n), ('pool', 'fail', n), ('pool', 'failp', n), ('pool', 'freefail', n), ('oom', '', max(40, n // 6))]
    cmds = []; tfs = []
    for k, (mode, sub, cnt) in enumerate(jobs):
        t = os.path.join(vlib.BUILD, 'traces', 'c18-%s-%d-%d.ndjson' % (mode, k, os.getpid())); tfs.append(t)
        cmds.append([exe, mode, t, str(cnt), str(seed * 4001 + k * 977)] + ([sub] if sub else []))
    ps = vlib.run_parallel(cmds, timeout=3000)
    execs = []; nexec = 0
    for pp, t in zip(ps, tfs):
        if pp is None or pp.returncode != 0:
            raise vlib.HarnessFailure('h_malloc failed: %s' % ((pp.stdout + pp.stderr)[-1500:] if pp else 'timeout'))
        nexec += json.loads([l for l in pp.stdout.splitlines() if l.startswith('{')][-1])['paths']
        execs += vlib.collect_traces([t])
    for t in execs:
        if any(e['e'] == 'Stuck' and e.get('rc') == 'watchdog' for e in t):
            raise vlib.HarnessFailure('h_malloc child hung (watchdog)')
    sg = C17.sig('TracePool')
    vlib.validate_and_report(res, SD, 'TracePool', 'TracePool.cfg', execs, 'c18-pool',
                             lambda tr: 'recorded execution of the real allocator / memory pools is rejected by PoolAbs (%s): %s' % (sg(tr), json.dumps([e for e in tr if not e['e'].startswith('#')][-14:])[:1500]),
                             batch=150, sig_fn=sg, group_fn=lambda t: next((e.get('name') for e in t if e['e'] == 'Scenario'), None))
    nfail = sum(1 for t in execs for e in t if e['e'] == 'Fail'); nra0 = sum(1 for t in execs for e in t if e['e'] == 'RA' and e['ok'] == 0)
    res.extra.update({'executions': nexec, 'refused_requests_observed': nfail, 'injected_raw_failures': nra0, 'events_validated': sum(len(t) for t in execs)})
    if nfail == 0 or nra0 == 0:
        raise vlib.HarnessFailure('vacuity: no injected failure was reached')
    res.exhaustive = False
    res.assumptions += ['fault positions: a run of consecutive failing raw allocations starting at a seed-chosen call index (single failures are absorbed by the back-end retry ladder); sampled, not all subsets',
                        'single-threaded pool sequences (two pools alive); the default-pool part runs each case in a fresh process',
                        'addresses compared through order-preserving ranks']
