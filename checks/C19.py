# C19 - call_once and thread-specific storage: one winner, one element per thread.
#   protocol specs (TLC): misc/CallOnce (m_state word uninit / done / runner|refs, runner ref count / ready flag, helper CAS bounded by the
#                         mask, exception reset; safety + termination under fairness), misc/ETS (table_lookup: chain of arrays, slot claim
#                         CAS, growth by CAS push, re-insert at the top level)
#   abstract specs: misc/OnceAbs, misc/EtsAbs; executions of the real collaborative_call_once (callers are threads of an all-reserved
#   arena, function throws on chosen attempts, nested work for moonlighting helpers) and of enumerable_thread_specific (both key kinds) /
#   combinable (tables crossing two doublings) under seeded random cooperative schedules are validated by TLC (TraceOnce / TraceEts).
import os, json, vlib
SD = os.path.join(vlib.SPEC, 'misc')


def sig_of(module):
    def signature(tr):
        evs = [e for e in tr if not e['e'].startswith('#')]
        for e in evs:
            if e['e'] in ('Stuck', 'Crash', 'Terminate'):
                return e['e'].lower()
        i = vlib.first_unexplained(SD, module, module + '.cfg', evs, 'c19', linear=True)
        return 'first-unexplained=%s' % (evs[i]['e'] if i is not None else '?')
    return signature


def run(res, tier, seed):
    thorough = tier != 'quick'
    for cfg in ['CallOnce_T0.cfg', 'CallOnce_T1.cfg', 'CallOnce_T12.cfg'] + (['CallOnce_4.cfg'] if thorough else []):
        vlib.model_check(res, SD, 'CallOnce', cfg, timeout=1500)
    vlib.model_check(res, SD, 'CallOnce', 'CallOnce_live.cfg', timeout=1500)
    for cfg in ['ETS_3x1.cfg'] + (['ETS_3x2.cfg', 'ETS_3bx2.cfg', 'ETS_4x1.cfg'] if thorough else []):
        vlib.model_check(res, SD, 'MCe', cfg, timeout=3000 if cfg != 'ETS_4x1.cfg' else 7200, xmx='24g')     # ETS_4x1: 3.6e8 states, 40-50 min on 16 idle cores (a loaded machine exceeded 3000 s once)
    exe = vlib.build_harness('h_misc', ['misc/h_misc.cpp'])
    n = 150 if not thorough else 3000
    os.makedirs(os.path.join(vlib.BUILD, 'traces'), exist_ok=True)
    once = [(N, mask, work) for N in (2, 3, 4) for mask, work in ((0, 0), (1, 2), (3, 0), (5, 2), (2, 1))]
    if thorough:
        once += [(N, mask, work) for N in (5, 6, 8) for mask, work in ((0, 2), (1, 0), (7, 1))]
    ets = [(N, k) for N in (2, 3, 5) for k in ('ets', 'etskey', 'comb')] + [(N, k) for N in (6, 9) for k in ('ets', 'comb')]      # 6 / 9 first accesses at once: the slot table doubles while smaller tables are being published + ([(N, k) for N in (8, 9, 12) for k in ('ets', 'etskey', 'comb')] if thorough else [])
    cmds = []; tfs = []; kinds = []
    for k, (N, mask, work) in enumerate(once):
        tf = os.path.join(vlib.BUILD, 'traces', 'c19-once-%d-%d.ndjson' % (os.getpid(), k)); tfs.append(tf); kinds.append('once')
        cmds.append([exe, 'once', tf, str(n if N <= 4 else max(60, n // 4)), str(seed * 7001 + k * 101), str(N), str(mask), str(work)])       # (runs with 5-8 callers are several times longer)
    for k, (N, kind) in enumerate(ets):
        tf = os.path.join(vlib.BUILD, 'traces', 'c19-ets-%d-%d.ndjson' % (os.getpid(), k)); tfs.append(tf); kinds.append('ets')
        cmds.append([exe, 'ets', tf, str(n if N <= 5 else max(60, n // 3)), str(seed * 7001 + k * 103), str(N), kind])
    ps = vlib.run_parallel(cmds, timeout=2500)
    ex = {'once': [], 'ets': []}; steps = 0; nexec = 0
    for p, tf, kd, c in zip(ps, tfs, kinds, cmds):
        if p is None or p.returncode != 0:
            raise vlib.HarnessFailure('h_misc failed (%s): %s' % (' '.join(c[1:]), (p.stdout + p.stderr)[-1500:] if p else 'timeout'))
        s = json.loads([l for l in p.stdout.splitlines() if l.startswith('{')][-1]); steps += s['steps']; nexec += s['paths']
        ex[kd] += vlib.collect_traces([tf])
    for kd, module, what in (('once', 'TraceOnce', 'collaborative_call_once'), ('ets', 'TraceEts', 'enumerable_thread_specific / combinable')):
        sg = sig_of(module)
        vlib.validate_and_report(res, SD, module, module + '.cfg', ex[kd], 'c19-' + kd,
                                 lambda tr, what=what, module=module, sg=sg: 'recorded execution of the real %s is rejected by %s (%s): %s'
                                 % (what, module, sg(tr), json.dumps([e for e in tr if not e['e'].startswith('#')])[:1400]),
                                 batch=300, sig_fn=lambda tr, kd=kd, sg=sg: '%s:%s' % (kd, sg(tr)))
    res.extra.update({'executions': nexec, 'real_steps_executed': steps, 'schedules_per_scenario': n, 'scenarios': len(cmds)})
    res.exhaustive = False
    res.assumptions += ['real-code schedules: seeded random cooperative interleavings at atomic-access granularity (not TLC-enumerated); sequentially consistent',
                        'call_once callers are threads of an all-reserved arena (2-4 quick, up to 8 thorough); the function throws on attempts chosen by a bit mask',
                        'thread-specific storage: 2-5 threads (up to 12 thorough) x 3 lookups; the hash of a thread key is whatever the platform gives']
