# C20 - a suspended task resumes exactly once, however resume races with suspension.
#   protocol spec: spec/sched/Suspend.tla (m_stack_state hand-shake between the suspending thread and the resumer; liveness under fairness)
#   abstract spec: SchedAbs (Suspend / Resume / Continue); real tbb::task::suspend / resume scenarios (resume from another task on a thief,
#   from the suspend callback itself, two suspended units resumed in reverse order) on 2-4 logical threads, validated by TLC.
import os, json, vlib, schedlib


def run(res, tier, seed):
    thorough = tier != 'quick'
    vlib.model_check(res, schedlib.SD, 'Suspend', 'Suspend_fair.cfg', deadlock=False)
    # owner recall: the model is instantiated with the order of recall_owner's two stores as observed on the running code
    hexe = vlib.build_harness('h_sched', ['sched/h_sched.cpp'])
    p = vlib.sh([hexe, 'probe_recall'], timeout=120)
    try:
        fact = json.loads([l for l in p.stdout.splitlines() if l.startswith('{')][-1])
    except Exception:
        raise vlib.HarnessFailure('recall probe failed: %s' % (p.stdout + p.stderr)[-1500:])
    res.extra['code_facts'] = fact
    if fact['recall_order'] not in ('state', 'flag'):
        print('SPEC-DRIFT property=C20 recall_owner no longer consists of the two stores the Recall model knows (%s); the model is not instantiated' % json.dumps(fact))
    else:
        r = vlib.model_check(res, schedlib.SD, 'Recall', 'Recall_%s.cfg' % fact['recall_order'], must_hold=False, deadlock=False)
        vlib.tlc_must_hold(r, 'Recall')
        if r.violation:
            if fact['recall_order'] == 'state':
                raise vlib.HarnessFailure('Recall model violates %s with the default store order' % r.violation)
            res.violation('recall:model:%s' % r.violation, 'recall_owner() publishes m_is_owner_recalled before it marks the stack notified (order observed on the running code); with that order the '
                          'Recall model lets the owner switch back onto its stack before the state store lands: the late store marks a running stack as notified and its next suspension '
                          'continues although tbb::task::resume was never called', {'tlc_counterexample': vlib.extract_error_trace(r.out)[-30:], 'fact': fact})
    rv = vlib.model_check(res, schedlib.SD, 'Recall', 'Recall_flag.cfg', must_hold=False, deadlock=False)
    if rv.violation != 'OnlyAfterResume':
        raise vlib.HarnessFailure('vacuity control failed: Recall with the flag published first should violate OnlyAfterResume')
    # task::resume publishes the resume task through a stream and must abort a clear transaction of the arena's state that is in flight (fact probed, PoolState model)
    schedlib.publish_fact_check(res, vlib.build_harness('h_wake', ['sync/h_wake.cpp']), ('resume_aborts_clear',))
    schedlib.run_scenarios(res, 'C20', 'c20', 120 if not thorough else 2000, seed, threads=(1, 2, 3, 4))     # the 'c20' selection of h_sched includes suspendF3: three suspensions in a row, resumed from a foreign thread, hand-shake words tracked
    # stacks that migrate between an external thread and a real RML worker (a logical thread as well), three suspensions in a row on the same unit, resumed from
    # outside the arena: a continuation is explainable only after its resume call (TraceWake: ResS), every run in a fresh process
    exe = vlib.build_harness('h_wake', ['sync/h_wake.cpp'])
    os.makedirs(os.path.join(vlib.BUILD, 'traces'), exist_ok=True)
    cmds = []; tfs = []
    for k in range(4 if not thorough else 12):
        tf = os.path.join(vlib.BUILD, 'traces', 'c20-suspW-%d-%d.ndjson' % (k, os.getpid())); tfs.append(tf)
        cmds.append([exe, tf, 'suspW', str(40 if not thorough else 400), str(seed * 7919 + k * 613), '0'])
    ps = vlib.run_parallel(cmds, timeout=2500); execs = []
    for p, tf in zip(ps, tfs):
        if p is None or p.returncode != 0:
            raise vlib.HarnessFailure('h_wake suspW failed: %s' % ((p.stdout + p.stderr)[-1500:] if p else 'timeout'))
        execs += vlib.collect_traces([tf])
    for t in execs:
        if any(e['e'] == 'Stuck' and 'blocked' not in e for e in t):
            raise vlib.HarnessFailure('h_wake child hung outside scheduler control (watchdog)')
    SDY = os.path.join(vlib.SPEC, 'sync')

    def sig(tr):
        evs = [e for e in tr if not e['e'].startswith('#')]
        if any(e['e'] in ('Stuck', 'Crash') for e in evs):
            return 'suspW:' + next(e['e'].lower() for e in evs if e['e'] in ('Stuck', 'Crash'))
        i = vlib.first_unexplained(SDY, 'TraceWake', 'TraceWake.cfg', evs, 'c20', linear=True)
        return 'suspW:first-unexplained=%s' % (evs[i]['e'] if i is not None else '?')
    vlib.validate_and_report(res, SDY, 'TraceWake', 'TraceWake.cfg', execs, 'c20-suspW',
                             lambda tr: 'a suspended unit continued before tbb::task::resume was called for that suspension, or the run got stuck (%s): %s' % (sig(tr), json.dumps([e for e in tr if not e['e'].startswith('#')])[:1200]),
                             batch=200, sig_fn=sig)
    res.exhaustive = False
    res.assumptions += ['real-code schedules sampled (seeded random cooperative); arenas of size 1-4, all slots reserved; the coroutine stack switch happens inside one OS thread']
