# C20 - a suspended task resumes exactly once, however resume races with suspension.
#   protocol spec: spec/sched/Suspend.tla (m_stack_state hand-shake between the suspending thread and the resumer; liveness under fairness)
#   abstract spec: SchedAbs (Suspend / Resume / Continue); real tbb::task::suspend / resume scenarios (resume from another task on a thief,
#   from the suspend callback itself, two suspended units resumed in reverse order) on 2-4 logical threads, validated by TLC.
import vlib, schedlib


def run(res, tier, seed):
    thorough = tier != 'quick'
    vlib.model_check(res, schedlib.SD, 'Suspend', 'Suspend_fair.cfg', deadlock=False)
    schedlib.run_scenarios(res, 'C20', 'c20', 120 if not thorough else 2000, seed, threads=(1, 2, 3, 4))
    res.exhaustive = False
    res.assumptions += ['real-code schedules sampled (seeded random cooperative); arenas of size 1-4, all slots reserved; the coroutine stack switch happens inside one OS thread']
