# C10 - concurrent_hash_map is a linearizable map with per-element reader/writer locks.
#   protocol spec: spec/cont/HashMapRehash.tla (mask race re-check, lazy rehash of the child bucket from its parent under the bucket locks)
#   abstract spec: spec/cont/MapAbs.tla; histories (insert/find/erase/count, accessor hold intervals, element destruction) of the real map
#   with identity / constant / low-bit-colliding hash functions and 1 initial bucket are validated by TLC (TraceMap.tla)
import os, vlib, contlib
SCEN = [
    ('low', 'hmap', 'low', ['insw:1,erase:2,find:3', 'ins:2,findr:1,ins:3', 'erase:1,ins:1,count:2']),
    ('const', 'hmap', 'const', ['ins:1,ins:2,erase:1', 'ins:1,findw:2,erase:2', 'findr:1,ins:3,count:1']),
    ('grow', 'hmap', 'id', ['ins:0,ins:1,ins:2,ins:3,ins:4', 'ins:5,ins:6,ins:7,ins:8', 'find:0,find:4,find:8,erase:1,find:1']),
    ('same', 'hmap', 'id', ['ins:7,erase:7,ins:7', 'ins:7,erase:7', 'erase:7,ins:7,count:7']),
    ('split', 'hmap', 'id', ['ins:1,ins:3,ins:5,ins:9', 'ins:2,ins:17,findr:1', 'erase:3,findw:9,ins:33', 'find:17,erase:1,count:5']),
    # erase through a held accessor while another thread grows the table and touches the key's new bucket (mask race in exclude())
    ('eacc', 'hmap', 'id', ['ins:3,erasea:3,ins:3,erasear:3', 'ins:4,ins:5,ins:6,count:3,ins:8', 'ins:7,find:3,ins:9,count:3']),
    ('eacc2', 'hmap', 'id', ['ins:2,ins:6,erasea:6,erasear:2', 'ins:1,ins:3,ins:4,ins:5,count:6,count:2', 'ins:8,ins:9,ins:10,find:6,find:2']),
    ('eacc3', 'hmap', 'low', ['ins:2,erasea:2', 'erasear:2,ins:2', 'ins:4,ins:6,ins:8,count:2']),
    ('locks', 'hmap', 'low', ['insw:4,findw:4', 'findr:4,findr:4', 'findw:4,erase:4', 'findr:4,ins:4']),
]


def run(res, tier, seed):
    thorough = tier != 'quick'
    vlib.model_check(res, contlib.SD, 'MCHashMapRehash', 'HashMapRehash_PA.cfg')
    vlib.model_check(res, contlib.SD, 'MCHashMapRehash', 'HashMapRehash_PB.cfg')
    contlib.run_scenarios(res, 'C10', 'TraceMap', SCEN, 400 if not thorough else 6000, seed, 'concurrent_hash_map')
