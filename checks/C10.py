# C10 - concurrent_hash_map is a linearizable map with per-element reader/writer locks.
#   protocol spec: spec/cont/HashMapRehash.tla (mask race re-check, lazy rehash of the child bucket from its parent under the bucket locks)
#   abstract spec: spec/cont/MapAbs.tla; histories (insert/find/erase/count, accessor hold intervals, element destruction) of the real map
#   with identity / constant / low-bit-colliding hash functions and 1 initial bucket are validated by TLC (TraceMap.tla)
import os, vlib, contlib
SCEN = [
    ('low', 'hmap', 'low', ['insw:1,erase:2,find:3', 'ins:2,findr:1,ins:3', 'erase:1,ins:1,count:2']),
    ('const', 'hmap', 'const', ['ins:1,ins:2,erase:1', 'ins:1,findw:2,erase:2', 'findr:1,ins:3,count:1']),
    ('grow', 'hmap', 'id', ['ins:0,ins:1,ins:2,ins:3,ins:4', 'ins:5,ins:6,ins:7,ins:8', 'find:0,find:4,find:8,erase:1,find:1']),
    ('same', 'hmap', 'id', ['ins:7,erase:7,ins:7', 'ins:7,erase:7', 'erase:7,ins:7,count:7']),
    ('split', 'hmap', 'id', ['ins:1,ins:3,ins:5,ins:9', 'ins:2,ins:17,findr:1', 'erase:3,findw:9,ins:33', 'find:17,erase:1,count:5']),
    # erase through a held accessor while another thread grows the table and touches the key's new bucket (mask race in exclude())
    ('eacc', 'hmap', 'id', ['ins:3,erasea:3,ins:3,erasear:3', 'ins:4,ins:5,ins:6,count:3,ins:8', 'ins:7,find:3,ins:9,count:3']),
    ('eacc2', 'hmap', 'id', ['ins:2,ins:6,erasea:6,erasear:2', 'ins:1,ins:3,ins:4,ins:5,count:6,count:2', 'ins:8,ins:9,ins:10,find:6,find:2']),
    ('eacc3', 'hmap', 'low', ['ins:2,erasea:2', 'erasear:2,ins:2', 'ins:4,ins:6,ins:8,count:2']),
    # lazy rehash of a child bucket from its parent racing an erase in the parent chain.  The table jumps from 2 to 256 buckets at the first insert, so a parent chain of several
    # keys exists only at the next doubling (256 -> 512): 251 filler keys + the chain [5, 517, 261, 773] of bucket 5 (5 and 517 stay, 261 and 773 move to bucket 261) + one more
    # insert that makes the table grow; after the barrier one thread touches the child bucket (rehash_bucket walks the parent chain as a reader and upgrades at 261) while another
    # erases 517, the predecessor of the node being moved
    ('rehash1', 'hmap', 'id', ['fill:1030,ins:773,ins:261,ins:517,ins:5,ins:1281,bar,find:261,find:773,count:5', 'bar,erase:517,find:773,find:261', 'bar,find:773,find:5,count:517,find:261']),
    ('rehash2', 'hmap', 'id', ['fill:1030,ins:773,ins:261,ins:517,ins:5,ins:1281,bar,count:773,erase:261,find:5', 'bar,erase:517,count:5,find:773', 'bar,erase:5,find:261,find:773,count:517']),
    ('locks', 'hmap', 'low', ['insw:4,findw:4', 'findr:4,findr:4', 'findw:4,erase:4', 'findr:4,ins:4']),
]


def run(res, tier, seed):
    thorough = tier != 'quick'
    vlib.model_check(res, contlib.SD, 'MCHashMapRehash', 'HashMapRehash_PA.cfg')
    vlib.model_check(res, contlib.SD, 'MCHashMapRehash', 'HashMapRehash_PB.cfg')
    contlib.run_scenarios(res, 'C10', 'TraceMap', [x for x in SCEN if not x[0].startswith('rehash')], 400 if not thorough else 6000, seed, 'concurrent_hash_map')
    contlib.run_scenarios(res, 'C10', 'TraceMap', [x for x in SCEN if x[0].startswith('rehash')], 60 if not thorough else 800, seed, 'concurrent_hash_map')     # (260 inserts per run)
