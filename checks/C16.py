# C16 - arenas bound concurrency, give unique slots, isolate work, respect the worker budget.
#   function spec (TLC): sched/Market (update_allotment / adjust_demand / set_active_num_workers / arena::update_request transcription; every call
#       sequence to depth 6 (8 thorough) over 3-4 clients on 1-3 priority levels: sum = min(demand, limit), nobody gets more than asked, priority order)
#   protocol spec (TLC): sched/Demand (no lost demand delta on the way to the thread server)
#   binding: seeded random call sequences on a real r1::market with real arenas as clients, requests and allotment vectors validated by TLC
#       (TraceMarket: the property invariants on the observed state = verdict; disagreement with the transcription = drift);
#       real task_arenas with external logical threads and real RML workers (logical threads too) under random / PCT cooperative schedules:
#       current_thread_index, in-flight sets, observer callbacks, worker ids validated by TLC against ArenaAbs (TraceArena);
#       isolation scenarios validated against SchedAbs (a waiter inside isolate only begins units of its own scope).
import os, json, re, vlib, schedlib
SD = os.path.join(vlib.SPEC, 'sched')
# (maxc, reserved, externals, tasks, enqueues, limit, observer)
SHAPES_Q = [(3, 1, 2, 3, 1, 0, 1), (2, 1, 2, 2, 1, 0, 1), (1, 1, 1, 2, 2, 0, 1), (4, 0, 1, 0, 4, 0, 1), (3, 2, 3, 2, 0, 0, 0), (2, 2, 3, 2, 0, 0, 1),
            (3, 1, 1, 4, 2, 2, 0), (4, 1, 1, 4, 2, 3, 0), (3, 1, 2, 2, 2, 1, 0), (1, 1, 2, 2, 1, 0, 1), (1, 1, 3, 1, 1, 0, 0)]
SHAPES_T = [(4, 1, 3, 3, 2, 0, 1), (5, 2, 2, 4, 2, 3, 1), (2, 0, 1, 0, 5, 2, 1), (3, 3, 4, 2, 0, 0, 1), (1, 1, 2, 3, 3, 1, 1)]


_memo = {}


def arena_sig(tr):
    key = json.dumps(tr, sort_keys=True)
    if key not in _memo:
        _memo[key] = _arena_sig(tr)
    return _memo[key]


def _arena_sig(tr):
    evs = [e for e in tr if not e['e'].startswith('#')]
    sc = next((e.get('name') for e in evs if e['e'] == 'Scenario'), '?')
    for e in evs:
        if e['e'] in ('Stuck', 'Crash', 'Terminate'):
            return 'arena:%s:%s' % (sc, e['e'].lower())
    i = vlib.first_unexplained(SD, 'TraceArena', 'TraceArena.cfg', evs, 'c16', linear=True)
    if i is None:
        return 'arena:%s:?' % sc
    e = evs[i]
    if e['e'] == 'In':
        cfg = next(x for x in evs if x['e'] == 'Cfg')
        kind = 'index-out-of-bound' if e['i'] >= cfg['maxc'] + (1 if cfg['maxc'] == 1 and e['w'] else 0) else ('worker-in-reserved-slot' if e['w'] and e['i'] < cfg['res'] else 'bound-or-duplicate')
        return 'arena(%d,%d):In:%s:%s' % (cfg['maxc'], cfg['res'], 'worker' if e['w'] else 'external', kind)
    return 'arena:%s:first-unexplained=%s' % (sc, e['e'])


def run(res, tier, seed):
    thorough = tier != 'quick'
    vlib.model_check(res, SD, 'MCm', 'Market_d6.cfg', deadlock=False, timeout=1500)
    vlib.model_check(res, SD, 'MCm2', 'Market_4c.cfg', deadlock=False, timeout=1500)
    vlib.model_check(res, SD, 'MCd', 'Demand_2.cfg', timeout=1500)
    if thorough:
        vlib.model_check(res, SD, 'MCm', 'Market_d8.cfg', deadlock=False, timeout=3000, xmx='24g')
    # ---- mandatory concurrency: the +1 mandatory request an enqueue reports must be taken back when the flag is cleared, whatever the task pools hold at that moment
    # (else the arena keeps a "mandatory" worker under max_allowed_parallelism = 1 with nothing enqueued).  Mandatory.tla instantiated with the fact probed by a
    # directed schedule on the real arena (h_wake probe_mandatory)
    wexe = vlib.build_harness('h_wake', ['sync/h_wake.cpp'])
    p = vlib.sh([wexe, 'probe_mandatory'], timeout=300)
    try:
        mf = json.loads([l for l in p.stdout.splitlines() if l.startswith('{')][-1])
    except Exception:
        raise vlib.HarnessFailure('mandatory probe failed: %s' % (p.stdout + p.stderr)[-1500:])
    if mf.get('rc') != 'ok' or mf.get('report_either') not in (0, 1):
        raise vlib.HarnessFailure('mandatory probe inconclusive: %s' % mf)
    res.extra.setdefault('code_facts', {}).update({'out_of_work_reports_either': mf['report_either']})
    r = vlib.model_check(res, SD, 'Mandatory', 'Mandatory_a.cfg' if mf['report_either'] else 'Mandatory_a_poolonly.cfg', must_hold=False, deadlock=False, timeout=1500)
    vlib.tlc_must_hold(r, 'Mandatory')
    if r.violation:
        if mf['report_either']:
            raise vlib.HarnessFailure('Mandatory model violates %s with the default constants' % r.violation)
        res.violation('mandatory:model:%s' % r.violation, 'arena::out_of_work clears my_mandatory_concurrency without taking the mandatory request back when the task pools are not empty at that moment '
                      '(observed on the running code by a directed schedule: my_mandatory_requests stays 1 after the flag was cleared); with that fact the Mandatory model reaches a quiescent '
                      'state in which the arena still claims a mandatory worker with nothing enqueued - under max_allowed_parallelism = 1 that worker executes ordinary parallel work '
                      '(%s violated)' % r.violation, {'tlc_counterexample': vlib.extract_error_trace(r.out)[-40:], 'facts': mf})
    else:
        rv = vlib.model_check(res, SD, 'Mandatory', 'Mandatory_a_poolonly.cfg', must_hold=False, deadlock=False, timeout=1500)
        if rv.violation != 'MandatoryAccounted':
            raise vlib.HarnessFailure('vacuity control failed: Mandatory with REPORT_EITHER = FALSE should leave a mandatory request behind')
    # ---- allotment arithmetic on the real market
    import time; t0 = time.time()
    exe = vlib.build_harness('h_market', ['arena/h_market.cpp'])
    os.makedirs(os.path.join(vlib.BUILD, 'traces'), exist_ok=True)
    nseq = 400 if not thorough else 20000; drift = 0; calls = 0
    for cfgname in 'ABC':
        tf = os.path.join(vlib.BUILD, 'traces', 'c16-market-%s-%d.ndjson' % (cfgname, os.getpid()))
        p = vlib.sh([exe, tf, cfgname, str(nseq), str(seed * 3001 + ord(cfgname)), '14'], timeout=900)
        if p.returncode != 0:
            raise vlib.HarnessFailure('h_market failed: %s' % (p.stdout + p.stderr)[-1500:])
        calls += json.loads(p.stdout.strip().splitlines()[-1])['calls']
        execs = vlib.collect_traces([tf])

        def describe(tr):
            return ('allotment vector written by the real market violates the allotment clause (sum = min(demand, limit) / nobody more than asked / priority order): %s'
                    % json.dumps(tr)[:1400])
        # validate in chunks so that the drift counter can be read from the final state of each accepted chunk
        for b in range(0, len(execs), 500):
            chunk = execs[b:b + 500]
            fn = os.path.join(vlib.BUILD, 'traces', 'c16-mk-%d.ndjson' % os.getpid())
            with open(fn, 'w') as f:
                for i, t in enumerate(chunk):
                    if i:
                        f.write('{"e":"Reset"}\n')
                    for e in t:
                        f.write(json.dumps(e, separators=(',', ':')) + '\n')
            ok, r = vlib.validate_trace_file(SD, 'TraceMarket', 'TraceMarket_%s.cfg' % cfgname, fn)
            res.states += r.distinct; res.transitions += r.generated
            if ok:
                res.traces += len(chunk); os.unlink(fn)
                m = re.findall(r'drift = (\d+)', r.out)
                drift += int(m[-1]) if m else 0
            else:
                os.unlink(fn)
                vlib.validate_and_report(res, SD, 'TraceMarket', 'TraceMarket_%s.cfg' % cfgname, chunk, 'c16-market-' + cfgname, describe, batch=100,
                                         sig_fn=lambda tr, c=cfgname: 'market:%s' % c)
    res.extra.update({'market_calls_replayed': calls, 'market_transcription_drift': drift})
    if drift:
        print('SPEC-DRIFT property=C16 market transcription disagrees with the code on %d calls (property invariants still hold)' % drift)
    vlib.log('market part %.1fs' % (time.time() - t0)); t0 = time.time()
    # ---- arenas with workers under the cooperative scheduler
    exa = vlib.build_harness('h_arena', ['arena/h_arena.cpp'])
    n = 40 if not thorough else 600
    shapes = SHAPES_Q + (SHAPES_T if thorough else [])
    cmds = []; tfs = []
    for k, sh in enumerate(shapes):
        tf = os.path.join(vlib.BUILD, 'traces', 'c16-arena-%d-%d.ndjson' % (k, os.getpid())); tfs.append(tf)
        # (a one-thread arena entered by several external threads reproduces a known finding in most runs: few runs suffice there)
        cmds.append([exa, tf, str(n if not (sh[0] == 1 and sh[2] >= 2) else max(6, n // 6)), str(seed * 811 + k * 37)] + [str(x) for x in sh])
    ps = vlib.run_parallel(cmds, timeout=3000)
    execs = []; tot = {}
    for p, tf, c in zip(ps, tfs, cmds):
        if p is None or p.returncode != 0:
            raise vlib.HarnessFailure('h_arena failed (%s): %s' % (' '.join(c[2:]), (p.stdout + p.stderr)[-1500:] if p else 'timeout'))
        s = json.loads([l for l in p.stdout.splitlines() if l.startswith('{')][-1])
        for key, v in s.items():
            if isinstance(v, (int, float)) and key != 'wall':
                tot[key] = tot.get(key, 0) + v
        execs += vlib.collect_traces([tf])
    for t in execs:
        if any(e['e'] == 'Stuck' and e.get('rc') == 'watchdog' for e in t):
            raise vlib.HarnessFailure('h_arena child hung outside scheduler control (watchdog)')
    vlib.validate_and_report(res, SD, 'TraceArena', 'TraceArena.cfg', execs, 'c16-arena',
                             lambda tr: 'recorded execution of real arenas (externals + RML workers) is rejected by ArenaAbs (%s): %s' % (arena_sig(tr), json.dumps([e for e in tr if not e['e'].startswith('#')])[:1400]),
                             batch=200, sig_fn=arena_sig, group_fn=lambda t: next((e.get('name') for e in t if e['e'] == 'Scenario'), None))
    vlib.log('arena part %.1fs' % (time.time() - t0)); t0 = time.time()
    # ---- isolation
    schedlib.run_scenarios(res, 'C16', 'isolate', 60 if not thorough else 1500, seed)
    schedlib.run_scenarios(res, 'C16', 'isolate2', 60 if not thorough else 1500, seed)
    vlib.log('isolation part %.1fs' % (time.time() - t0))
    res.extra.update({'arena_executions': tot.get('paths', 0), 'arena_real_steps': tot.get('steps', 0), 'worker_threads_scheduled': tot.get('workers', 0), 'arena_shapes': len(shapes)})
    res.exhaustive = False
    res.assumptions += ['allotment: exhaustive over call sequences of bounded depth on the transcription; random sequences (length 14) on the real market',
                        'arena scenarios: seeded random / PCT cooperative schedules, externals and RML workers both logical threads; occupancy is sampled inside user bodies (a thread that holds a slot without running a body is not seen)',
                        'worker budget: the limit is set before any parallel work starts; at L-1 = 0 one (mandatory) worker is tolerated']
