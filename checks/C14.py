# C14 - flow graph conserves messages, honours node limits; wait_for_all means idle.
#   abstract spec: flow/FlowAbs (per node: offered / begun / running / done message sets; Offered(n) = accepted external puts + outputs of predecessors;
#   a body begins only on an offered message, at most once, within the concurrency limit, never after the exception surfaced; a put reported as
#   rejected was not processed; wait_for_all returns only when nothing runs and - in a loss-less graph - everything offered was processed).
#   Real graphs (function-node chains with unlimited / serial / limited / lightweight / rejecting nodes, broadcast fan-out with a second source,
#   a throwing body followed by a second wait and reset, an input_node source, an async_node whose gateway is completed from a thread outside
#   the arena under reserve_wait / release_wait, a limiter feedback cycle, multifunction nodes, released reservations) with 2-3 external putters and an arena thread that executes graph tasks from the start are validated by TLC (TraceFlow).
import vlib, flowlib, contlib
SCEN = ['chain0', 'chain1', 'chainR', 'mfn', 'mfnR', 'fan', 'cancel', 'input', 'async', 'limitc1', 'limitc2', 'limitD2', 'limitD3', 'limitD2s', 'twolim',
        'reserve', 'reserve2', 'joinr']    # kept and offered again: reservations released on buffering nodes (with and without an accepting push successor), a reserving join


def run(res, tier, seed):
    thorough = tier != 'quick'
    # the aggregator that serialises every function_input / buffer operation: AggrCore replayed edge-complete on the real template
    contlib.replay_aggregator(res, 'C14', [('AggrCore_2.cfg', 2, 2)] + ([('AggrCore_3.cfg', 3, 1)] if thorough else []))
    flowlib.run_scenarios(res, 'C14', SCEN, 150 if not thorough else 3000, seed)
