# C13 - concurrent_priority_queue is a linearizable priority queue.
#   protocol spec: spec/cont/Aggregator.tla (pending-stack CAS, first pusher handles, handler_busy, two-pass batch handler)
#   abstract spec: spec/cont/PQAbs.tla; histories of the real queue validated by TLC (TracePQ.tla)
import os, re, json, vlib, contlib
SCEN = [
    ('a', 'pq', 'id', ['push:5,pop,push:9', 'push:7,push:3', 'pop,pop,pop']),
    ('dups', 'pq', 'id', ['push:5,push:5,pop', 'pop,push:5', 'push:1,pop,pop']),
    ('mono', 'pq', 'id', ['push:1,push:2,push:3', 'push:4,push:5', 'pop,pop,pop', 'pop,pop,pop']),
    ('desc', 'pq', 'id', ['push:9,push:8,push:7', 'pop,push:6,pop', 'pop,pop']),
    # a pre-built heap, then one batch that mixes pushes and a pop (the heap boundary `mark` differs from the vector size inside the handler)
    ('heap4', 'pq', 'id', ['push:9,push:7,push:5,push:3,bar,push:8', 'bar,push:1', 'bar,pop']),
    ('heap6', 'pq', 'id', ['push:12,push:10,push:8,push:6,push:4,push:2,bar,push:11,pop', 'bar,push:1,push:9', 'bar,pop,pop']),
    ('heap4b', 'pq', 'id', ['push:9,push:7,push:5,push:3,bar,push:6,push:8', 'bar,push:2,pop', 'bar,pop', 'bar,push:4']),
    ('f1', 'pqfault:1', 'id', ['push:5,pop', 'push:7,push:3', 'pop,pop']),
    ('f2', 'pqfault:2', 'id', ['push:5,pop', 'push:7,push:3', 'pop,pop']),
    ('f3', 'pqfault:3', 'id', ['push:5,push:2', 'push:7,push:3', 'pop,pop,pop']),
    ('f5', 'pqfault:5', 'id', ['push:5,push:2,pop', 'push:7,push:3,pop', 'pop,pop']),
]


def batch_replay(res, thorough):
    """every transition of PQBatch (the transcription of handle_operations / heapify / reheap) applied to the real queue's handler; TracePQBatch is the verdict"""
    cfg = 'PQBatch_7.cfg' if thorough else 'PQBatch_6.cfg'
    exe = vlib.build_harness('h_pqbatch', ['cont/h_pqbatch.cpp'], cosched=True)
    os.makedirs(os.path.join(vlib.BUILD, 'graphs'), exist_ok=True); os.makedirs(os.path.join(vlib.BUILD, 'traces'), exist_ok=True)
    dot = os.path.join(vlib.BUILD, 'graphs', 'c13-pqbatch.dot')
    r = vlib.tlc(contlib.SD, 'PQBatch', cfg, dump=dot, deadlock=False, timeout=3000, xmx='24g'); res.add_tlc(r, 'PQBatch:' + cfg); vlib.tlc_must_hold(r, cfg)
    if r.violation:
        raise vlib.HarnessFailure('PQBatch violates %s' % r.violation)
    nodes, edges, init = vlib.parse_dot(dot, ['data', 'lastBatch', 'lastRes'], raw=True); os.unlink(dot)

    def ints(v):
        return re.findall(r'-?\d+', v)
    proj = {}
    for k, v in nodes.items():
        f = v.split('\x1f')
        ops = ['0' if m[0] == 'pop' else m[1] for m in re.findall(r'<<"?(pop|push)"?(?:, (\d+))?>>', f[1])]
        proj[k] = (','.join(ints(f[0])), ','.join(ops), ','.join(ints(f[2])))
    seen = set(); lines = []
    for u, outs in edges.items():
        for (v, lab, arg) in outs:
            key = (proj[u][0], proj[v][1])
            if key in seen or not proj[v][1]:
                continue
            seen.add(key); lines.append('%s|%s|%s|%s' % (proj[u][0], proj[v][1], proj[v][2], proj[v][0]))
    tfn = os.path.join(vlib.BUILD, 'graphs', 'c13-pqbatch-%d.trans' % os.getpid()); open(tfn, 'w').write('\n'.join(lines) + '\n')
    tf = os.path.join(vlib.BUILD, 'traces', 'c13-pqbatch-%d.ndjson' % os.getpid())
    p = vlib.sh([exe, tfn, tf], timeout=1500); os.unlink(tfn)
    if p.returncode != 0:
        raise vlib.HarnessFailure('h_pqbatch failed: %s' % (p.stdout + p.stderr)[-1500:])
    for l in p.stderr.splitlines()[:4]:
        if l.startswith('SPEC-DRIFT'):
            print(l)
    s = json.loads(p.stdout.strip().splitlines()[-1])
    evs = vlib.read_trace_file(tf)[0]; os.unlink(tf)
    # the events are independent of each other: validated in slices, a rejected slice is bisected to its first bad transition
    execs = [evs[i:i + 400] for i in range(0, len(evs), 400)]
    def describe(tr):
        i = vlib.first_unexplained(contlib.SD, 'TracePQBatch', 'TracePQBatch.cfg', tr, 'c13-pqb', linear=True)
        return ('one batch handled by the real concurrent_priority_queue::handle_operations breaks the queue (result of a pop is not a maximum in any order of the batch, '
                'an element lost / invented, or the array is no heap afterwards): %s' % json.dumps(tr[i] if i is not None else tr[:2]))
    vlib.validate_and_report(res, contlib.SD, 'TracePQBatch', 'TracePQBatch.cfg', execs, 'c13-pqbatch', describe, batch=40, sig_fn=lambda tr: 'pqbatch:handler')
    vlib.log('c13-pqbatch: %d states, %d distinct transitions replayed on the real handler, drift %d' % (r.distinct, s['transitions'], s['drift']))
    res.extra.update({'handler_transitions_replayed': s['transitions'], 'handler_drift': s['drift']})
    if s['drift']:
        print('SPEC-DRIFT property=C13 handle_operations replay: %d transitions disagree with PQBatch.tla' % s['drift'])


def run(res, tier, seed):
    thorough = tier != 'quick'
    vlib.model_check(res, contlib.SD, 'MCAggregator', 'Aggregator_P3.cfg')
    if thorough:
        vlib.model_check(res, contlib.SD, 'MCAggregator', 'Aggregator_P3b.cfg', timeout=1500)
    batch_replay(res, thorough)
    contlib.replay_aggregator(res, 'C13', [('AggrCore_2.cfg', 2, 2), ('AggrCore_3.cfg', 3, 1)] + ([('AggrCore_3x2.cfg', 3, 2)] if thorough else []))
    scen = SCEN + ([('f%d' % k, 'pqfault:%d' % k, 'id', ['push:5,push:2,pop', 'push:7,push:3,pop', 'pop,pop,push:4']) for k in range(6, 12)] if thorough else [])
    contlib.run_scenarios(res, 'C13', 'TracePQ', scen, 400 if not thorough else 6000, seed, 'concurrent_priority_queue')
    res.assumptions.append('fault = the k-th element copy construction throws (the element assignment inside try_pop is assumed non-throwing, see DESIGN 4 C13)')
