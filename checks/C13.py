# C13 - concurrent_priority_queue is a linearizable priority queue.
#   protocol spec: spec/cont/Aggregator.tla (pending-stack CAS, first pusher handles, handler_busy, two-pass batch handler)
#   abstract spec: spec/cont/PQAbs.tla; histories of the real queue validated by TLC (TracePQ.tla)
import os, vlib, contlib
SCEN = [
    ('a', 'pq', 'id', ['push:5,pop,push:9', 'push:7,push:3', 'pop,pop,pop']),
    ('dups', 'pq', 'id', ['push:5,push:5,pop', 'pop,push:5', 'push:1,pop,pop']),
    ('mono', 'pq', 'id', ['push:1,push:2,push:3', 'push:4,push:5', 'pop,pop,pop', 'pop,pop,pop']),
    ('desc', 'pq', 'id', ['push:9,push:8,push:7', 'pop,push:6,pop', 'pop,pop']),
    # a pre-built heap, then one batch that mixes pushes and a pop (the heap boundary `mark` differs from the vector size inside the handler)
    ('heap4', 'pq', 'id', ['push:9,push:7,push:5,push:3,bar,push:8', 'bar,push:1', 'bar,pop']),
    ('heap6', 'pq', 'id', ['push:12,push:10,push:8,push:6,push:4,push:2,bar,push:11,pop', 'bar,push:1,push:9', 'bar,pop,pop']),
    ('heap4b', 'pq', 'id', ['push:9,push:7,push:5,push:3,bar,push:6,push:8', 'bar,push:2,pop', 'bar,pop', 'bar,push:4']),
    ('f1', 'pqfault:1', 'id', ['push:5,pop', 'push:7,push:3', 'pop,pop']),
    ('f2', 'pqfault:2', 'id', ['push:5,pop', 'push:7,push:3', 'pop,pop']),
    ('f3', 'pqfault:3', 'id', ['push:5,push:2', 'push:7,push:3', 'pop,pop,pop']),
    ('f5', 'pqfault:5', 'id', ['push:5,push:2,pop', 'push:7,push:3,pop', 'pop,pop']),
]


def run(res, tier, seed):
    thorough = tier != 'quick'
    vlib.model_check(res, contlib.SD, 'MCAggregator', 'Aggregator_P3.cfg')
    if thorough:
        vlib.model_check(res, contlib.SD, 'MCAggregator', 'Aggregator_P3b.cfg', timeout=1500)
    scen = SCEN + ([('f%d' % k, 'pqfault:%d' % k, 'id', ['push:5,push:2,pop', 'push:7,push:3,pop', 'pop,pop,push:4']) for k in range(6, 12)] if thorough else [])
    contlib.run_scenarios(res, 'C13', 'TracePQ', scen, 400 if not thorough else 6000, seed, 'concurrent_priority_queue')
    res.assumptions.append('fault = the k-th element copy construction throws (the element assignment inside try_pop is assumed non-throwing, see DESIGN 4 C13)')
