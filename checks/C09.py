# C09 - concurrent_queue / concurrent_bounded_queue are linearizable FIFO queues (incl. capacity, abort, throwing copy / allocation).
#   protocol spec: spec/cont/MicroQueue.tla (tickets, lanes k*3 mod 8, per-lane turnstiles, page list, invalid entries, failed allocation)
#   abstract spec: spec/cont/QueueAbs.tla ; recorded Inv/Res histories of the real queues (seeded random cooperative schedules over every
#   atomic of the queue; fault cases each in a forked child) are checked for linearizability by TLC (TraceQueue.tla) - the verdict.
import os, json, vlib
SD = os.path.join(vlib.SPEC, 'cont')

CQ = [  # (pad, cap, programs)
    (132, 0, ['push:11,push:12,try_pop', 'push:21,push:22', 'try_pop,try_pop,try_pop']),
    (60, 0, ['push:11,push:12,push:13', 'try_pop,try_pop', 'push:31,try_pop,try_pop']),
    (4, 0, ['push:11,try_pop,push:12', 'push:21,try_pop', 'try_pop,push:31,try_pop']),
    (20, 0, ['push:11,push:12', 'push:21,push:22', 'try_pop,try_pop', 'try_pop,try_pop']),
]
BQ = [
    (132, 1, ['push:11,push:12', 'pop,pop']),
    (4, 1, ['push:11,push:12,pop', 'push:21,pop', 'pop']),
    (60, 2, ['push:11,try_push:12,try_push:13', 'pop,pop', 'push:31']),
    (132, 1, ['pop', 'pop', 'abort']),                       # negative size: more blocked pops than items, then abort
    (4, 1, ['push:11,push:12', 'push:21', 'abort,try_pop,try_pop']),   # blocked pushes aborted; nothing lost or duplicated
    (20, 2, ['pop,push:11', 'push:21,pop', 'push:31']),
    (4, 1, ['push:11,push:12', 'abort,try_pop,try_push:31,try_pop,try_pop']),   # after an aborted push the queue must not stay 'full'
    # try_push must not report 'full' for a queue that was never full during the call: one thread keeps an item moving (pop, push) while another tries to push into the last free slot
    (4, 2, ['push:11,try_push:12,try_pop,try_push:13', 'pop,try_push:21,try_pop,try_push:22']),
    (132, 3, ['push:11,push:12,try_push:13,try_pop', 'pop,try_push:21,pop,try_push:22', 'try_push:31,try_pop']),
]
FAULT = [  # (kind, pad, cap, fault kind, kmax, programs)  - post-fault operations are pops only (a later push may legitimately throw bad_last_alloc)
    ('cq', 132, 0, 'alloc', 4, ['push:11,push:12,push:13,try_pop,try_pop,try_pop,try_pop']),
    ('cq', 132, 0, 'ctor', 4, ['push:11,push:12,push:13,try_pop,try_pop,try_pop,try_pop']),
    ('cq', 60, 0, 'alloc', 3, ['push:11,push:12,push:13,push:14,try_pop,try_pop,try_pop,try_pop,try_pop']),
    ('cq', 4, 0, 'ctor', 5, ['push:11,push:12', 'push:21,try_pop,try_pop,try_pop']),
    ('bq', 132, 3, 'alloc', 4, ['try_push:11,try_push:12,try_push:13,try_pop,try_pop,try_pop,try_pop']),
    ('bq', 132, 3, 'ctor', 4, ['try_push:11,try_push:12', 'try_push:21,try_pop,try_pop,try_pop']),
    # a throwing element constructor leaves an invalid entry behind; the lane must keep working when later tickets of the same lane (ticket + 8) are
    # pushed and popped - with 1 item per page every invalid entry sits in the last slot of its page, with 2 items per page those of tickets 8..15
    ('cq', 132, 0, 'ctor', 4, [','.join('push:%d' % (100 + i) for i in range(12)) + ',' + ','.join(['try_pop'] * 13)]),
    ('bq', 132, 14, 'ctor', 3, [','.join('try_push:%d' % (100 + i) for i in range(12)) + ',' + ','.join(['try_pop'] * 13)]),
    ('cq', 60, 0, 'ctor', 12, [','.join('push:%d' % (100 + i) for i in range(26)) + ',' + ','.join(['try_pop'] * 27)]),
    # the assignment of the popped item throws (pop / try_pop): the slot is consumed, so a push blocked on a full queue must be woken and later calls must not hang
    ('bq', 132, 1, 'assign', 2, ['push:11,push:12,push:13', 'wpop,pop,pop']),
    ('bq', 4, 1, 'assign', 2, ['push:11,push:12', 'wtry_pop,pop,try_pop']),
    ('bq', 60, 2, 'assign', 3, ['push:11,push:12,push:13', 'push:21', 'wpop,wtry_pop,pop,pop']),
    ('cq', 132, 0, 'assign', 3, ['push:11,push:12,push:13,try_pop,try_pop,try_pop,try_pop']),
    ('cq', 132, 0, 'ctor', 3, [','.join('push:%d' % (100 + i) for i in range(6)), ','.join('push:%d' % (200 + i) for i in range(6)), ','.join(['try_pop'] * 13)]),
    # an invalid entry with ONE valid item behind it and several poppers at once: while one popper has claimed the invalid ticket and not yet accounted for it, another
    # try_pop must not report 'empty' (the emptiness estimate subtracts the invalid entry; the item behind it has been there all along)
    ('cq', 132, 0, 'ctor*150', 2, ['push:11,push:12,try_pop', 'try_pop,try_pop', 'try_pop,try_pop']),
    ('cq', 4, 0, 'ctor*150', 2, ['push:11,push:12,push:13,try_pop', 'try_pop,try_pop', 'try_pop']),
]


def signature(tr):
    evs = [e for e in tr if not e['e'].startswith('#')]
    for e in evs:
        if e['e'] == 'Crash':
            return 'crash-after-%s-fault' % e.get('fault', '?')
    # an aborted blocking push earlier in the history?  (known finding: the aborted ticket stays behind as a phantom slot)
    ops = {}; aborted_push = False
    for e in evs:
        if e['e'] == 'Inv':
            ops[e['t']] = e['op']
        elif e['e'] == 'Res':
            if e['r'] == -1 and ops.get(e['t']) == 'push':
                aborted_push = True
            ops.pop(e['t'], None)
    pre = 'after-aborted-push:' if aborted_push else ''
    if any(e['e'] == 'Stuck' for e in evs):
        return pre + 'stuck:pending=' + '+'.join(sorted(ops.values()))
    i = vlib.first_unexplained(SD, 'TraceQueue', 'TraceQueue.cfg', evs, 'c09')
    if i is None:
        return pre + 'not-linearizable'
    e = evs[i]; op = ''
    if e['e'] == 'Res':
        for x in evs[:i]:
            if x['e'] == 'Inv' and x['t'] == e['t']:
                op = x['op']
        return pre + 'first-unexplained=Res(%s,%s)' % (op, 'value' if e['r'] > 0 else e['r'])
    return pre + 'first-unexplained=%s' % e['e']


def describe(tr):
    return 'recorded history of the real queue is rejected by QueueAbs (%s): %s' % (signature(tr), json.dumps([e for e in tr if not e['e'].startswith('#')][:40]))


def run(res, tier, seed):
    exe = vlib.build_harness('h_queue', ['cont/h_queue.cpp'])
    os.makedirs(os.path.join(vlib.BUILD, 'traces'), exist_ok=True)
    thorough = tier != 'quick'
    # fact from the code: does pop() survive an invalidated lane?  (forked probe; decides the model constant FIXED)
    tf = os.path.join(vlib.BUILD, 'traces', 'c09-probe-%d.ndjson' % os.getpid())
    p = vlib.sh([exe, 'fault', 'cq', '132', '0', 'alloc', '1', tf, 'push:11,push:12,try_pop,try_pop'], timeout=120)
    fixed = 'Crash' not in open(tf).read(); os.unlink(tf)
    res.extra['facts_from_code'] = {'pop_tolerates_invalid_page': fixed}
    model_viol = []
    for cfg in ['MicroQueue_nofault.cfg', 'MicroQueue_fail2_%s.cfg' % ('fixed' if fixed else 'code')] + (['MicroQueue_fail13_fixed.cfg'] if (fixed and thorough) else []):
        r = vlib.tlc(SD, 'MicroQueue', cfg, timeout=900); res.add_tlc(r, 'MicroQueue:' + cfg)
        vlib.tlc_must_hold(r, cfg)
        if r.violation:
            model_viol.append(cfg + ':' + r.violation)
    n = 400 if not thorough else 6000
    jobs = []
    for k, (pad, cap, progs) in enumerate(CQ):
        jobs.append(('cq-%d' % k, [exe, 'random', 'cq', str(pad), str(cap), str(n), str(seed * 1009 + k)], progs))
    for k, (pad, cap, progs) in enumerate(BQ):
        jobs.append(('bq-%d' % k, [exe, 'random', 'bq', str(pad), str(cap), str(n), str(seed * 2003 + k)], progs))
    for k, (kind, pad, cap, fk, kmax, progs) in enumerate(FAULT):
        jobs.append(('fault-%s-%s-%d' % (kind, fk.replace('*', 'x'), k), [exe, 'fault', kind, str(pad), str(cap), fk, str(kmax if not thorough else kmax + 2)], progs))
    cmds = []; tfs = []
    for name, pre, progs in jobs:
        tf = os.path.join(vlib.BUILD, 'traces', 'c09-%s-%d.ndjson' % (name, os.getpid())); tfs.append(tf)
        cmds.append(pre + [tf] + progs)
    ps = vlib.run_parallel(cmds, timeout=1500)
    steps = 0; nexec = 0
    for (name, pre, progs), pp, tf in zip(jobs, ps, tfs):
        if pp is None or pp.returncode != 0:
            raise vlib.HarnessFailure('h_queue %s failed: %s' % (name, (pp.stdout + pp.stderr)[-1500:] if pp else 'timeout'))
        s = json.loads([l for l in pp.stdout.splitlines() if l.startswith('{')][-1]); steps += s['steps']; nexec += s['paths']
        vlib.validate_and_report(res, SD, 'TraceQueue', 'TraceQueue.cfg', vlib.collect_traces([tf]), 'c09-' + name, describe, batch=150, sig_fn=signature)
    res.extra.update({'real_steps_executed': steps, 'executions': nexec, 'model_invariant_violations': model_viol,
                      'schedules_per_scenario': n, 'scenarios': len(jobs)})
    res.exhaustive = False
    res.assumptions += ['schedules are seeded random cooperative interleavings at atomic-access granularity (not TLC-enumerated) for the real-code part',
                        'fault positions: every allocation / element-copy index up to the listed kmax', 'sequentially consistent replay']
    if model_viol:
        print('MODEL-VIOLATION property=C09 (design level, MicroQueue instantiated with the facts observed in the code): %s' % ', '.join(model_viol))
