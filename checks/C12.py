# C12 - concurrent unordered / ordered associative containers never lose or duplicate keys; traversals are safe.
#   protocol spec: spec/cont/SplitList.tla (insert-only split-ordered list: search from the bucket dummy, CAS on the predecessor, re-search on failure)
#   abstract spec: spec/cont/SetAbs.tla; histories (insert/find/count + traversals concurrent with inserts) of the eight container types
#   validated by TLC (TraceSet.tla)
import os, vlib, contlib
P1 = ['ins:1,ins:2,trav', 'ins:2,ins:3,find:1', 'trav,ins:4,count:2']
P2 = ['ins:5,ins:1,trav,ins:9', 'ins:3,ins:5,find:9', 'trav,ins:2,trav']
P3 = ['ins:1,ins:1,ins:2', 'ins:1,ins:2,trav', 'count:1,trav,ins:2']
P4 = ['ins:8,ins:4,ins:12', 'ins:2,ins:6,ins:10', 'ins:4,ins:6,trav', 'trav,find:12,ins:1']     # keys adjacent in split order, bucket doubling
# bucket initialisation after the table doubled racing two inserts that land just before / just behind the new dummy node (insert_dummy_node re-scan)
P5 = ['rehash:4,find:2,count:18', 'ins:12,ins:28', 'ins:2,ins:18', 'ins:10,find:12,trav']
P6 = ['rehash:8,find:4,find:6', 'ins:8,ins:24,ins:2', 'ins:4,ins:20,ins:6', 'ins:12,ins:14,trav']
SCEN = [('uset-dummy', 'uset', 'id', P5), ('uset-dummy2', 'uset', 'id', P6), ('umset-dummy', 'umset', 'id', P5), ('umap-dummy', 'umap', 'id', P5),
        ('uset-const', 'uset', 'const', P1), ('uset-id', 'uset', 'id', P4), ('umset', 'umset', 'const', P3), ('umset-id', 'umset', 'id', P3),
        ('oset', 'oset', 'id', P2), ('omset', 'omset', 'id', P3), ('umap', 'umap', 'low', P1), ('omap', 'omap', 'id', P2), ('oset4', 'oset', 'id', P4)]


def run(res, tier, seed):
    thorough = tier != 'quick'
    for cfg in ['SplitList_PA_FALSE.cfg', 'SplitList_PA_TRUE.cfg', 'SplitList_PB_FALSE.cfg', 'SplitList_PB_TRUE.cfg']:
        vlib.model_check(res, contlib.SD, 'MCSplitList', cfg)
    contlib.run_scenarios(res, 'C12', 'TraceSet', SCEN, 400 if not thorough else 6000, seed, 'concurrent associative container')
