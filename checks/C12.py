# C12 - concurrent unordered / ordered associative containers never lose or duplicate keys; traversals are safe.
#   protocol spec: spec/cont/SplitList.tla (insert-only split-ordered list: search from the bucket dummy, CAS on the predecessor, re-search on failure)
#                  spec/cont/SkipList.tla (lock-free skip list insert / lower_bound: per-level search, level-0 CAS with re-search, max-height CAS, upper-level CAS
#                  with re-search); every edge of its state graph is replayed on the real concurrent_skip_list (h_skiplist), per-step comparison of all levels
#   abstract spec: spec/cont/SetAbs.tla; histories (insert/find/count + traversals concurrent with inserts) of the eight container types
#   validated by TLC (TraceSet.tla)
import os, re, json, vlib, contlib
P1 = ['ins:1,ins:2,trav', 'ins:2,ins:3,find:1', 'trav,ins:4,count:2']
P2 = ['ins:5,ins:1,trav,ins:9', 'ins:3,ins:5,find:9', 'trav,ins:2,trav']
P3 = ['ins:1,ins:1,ins:2', 'ins:1,ins:2,trav', 'count:1,trav,ins:2']
P4 = ['ins:8,ins:4,ins:12', 'ins:2,ins:6,ins:10', 'ins:4,ins:6,trav', 'trav,find:12,ins:1']     # keys adjacent in split order, bucket doubling
# bucket initialisation after the table doubled racing two inserts that land just before / just behind the new dummy node (insert_dummy_node re-scan)
P5 = ['rehash:4,find:2,count:18', 'ins:12,ins:28', 'ins:2,ins:18', 'ins:10,find:12,trav']
P6 = ['rehash:8,find:4,find:6', 'ins:8,ins:24,ins:2', 'ins:4,ins:20,ins:6', 'ins:12,ins:14,trav']
SCEN = [('uset-dummy', 'uset', 'id', P5), ('uset-dummy2', 'uset', 'id', P6), ('umset-dummy', 'umset', 'id', P5), ('umap-dummy', 'umap', 'id', P5),
        ('uset-const', 'uset', 'const', P1), ('uset-id', 'uset', 'id', P4), ('umset', 'umset', 'const', P3), ('umset-id', 'umset', 'id', P3),
        ('oset', 'oset', 'id', P2), ('omset', 'omset', 'id', P3), ('umap', 'umap', 'low', P1), ('omap', 'omap', 'id', P2), ('oset4', 'oset', 'id', P4)]


def run(res, tier, seed):
    thorough = tier != 'quick'
    for cfg in ['SplitList_PA_FALSE.cfg', 'SplitList_PA_TRUE.cfg', 'SplitList_PB_FALSE.cfg', 'SplitList_PB_TRUE.cfg']:
        vlib.model_check(res, contlib.SD, 'MCSplitList', cfg)
    replay_skiplist(res, thorough)
    contlib.run_scenarios(res, 'C12', 'TraceSet', SCEN, 400 if not thorough else 6000, seed, 'concurrent associative container')


KEYS = {1: 10, 2: 20, 3: 20, 4: 15}; HEIGHTS = {1: 2, 2: 3, 3: 1, 4: 2}          # = KeyA / HeightA of MCsk.tla
SK = [('SkipList_A.cfg', 2, '2,1|3,4', '||'), ('SkipList_D.cfg', 3, '4|2|', '||20')]
SK_T = [('SkipList_B.cfg', 3, '2|4|1,3', '||'), ('SkipList_C.cfg', 3, '4,2|1|', '||20,15')]


def replay_skiplist(res, thorough):
    exe = vlib.build_harness('h_skiplist', ['cont/h_skiplist.cpp'])
    os.makedirs(os.path.join(vlib.BUILD, 'graphs'), exist_ok=True)
    for cfg, nth, prog, fk in SK + (SK_T if thorough else []):
        tag = 'c12-' + cfg[:-4]
        dot = os.path.join(vlib.BUILD, 'graphs', tag + '.dot')
        r = vlib.tlc(contlib.SD, 'MCsk', cfg, dump=dot, deadlock=False, timeout=3000, xmx='24g'); res.add_tlc(r, 'SkipList:' + cfg); vlib.tlc_must_hold(r, cfg)
        if r.violation:
            raise vlib.HarnessFailure('SkipList model violates %s' % r.violation)
        nodes, edges, init = vlib.parse_dot(dot, ['maxh', 'nxt'], raw=True); os.unlink(dot)

        def conv(v):
            f = v.split('\x1f'); lv = re.findall(r'\((\d+ :> \d+(?: @@ \d+ :> \d+)*)\)', f[1]); out = [f[0].strip()]
            for s in lv:
                nx = {int(a): int(b) for a, b in re.findall(r'(\d+) :> (\d+)', s)}; ks = []; n = nx[0]
                while n != 99 and len(ks) < 10:
                    ks.append(str(KEYS[n])); n = nx[n]
                out.append(','.join(ks))
            return '|'.join(out)
        nodes = {k: conv(v) for k, v in nodes.items()}
        paths, cov, tot = vlib.edge_cover(nodes, edges, init)
        sched = os.path.join(vlib.BUILD, 'graphs', tag + '.sched'); vlib.write_schedules(paths, sched)
        args = [str(nth), ','.join(str(KEYS[i]) for i in sorted(KEYS)), ','.join(str(HEIGHTS[i]) for i in sorted(HEIGHTS)), prog, fk]
        sums, tfs = vlib.run_harness_parallel(lambda part, tf: [exe, part, tf] + args, sched, tag, timeout=2500)
        ssum = vlib.sum_dicts(sums); os.unlink(sched)
        sig = contlib.make_sig('TraceSet', tag)
        vlib.validate_and_report(res, contlib.SD, 'TraceSet', 'TraceSet.cfg', vlib.collect_traces(tfs), tag,
                                 lambda tr: 'replay of SkipList.tla on the real concurrent_skip_list: the recorded history is rejected by TraceSet (%s): %s' % (sig(tr), json.dumps([e for e in tr if not e['e'].startswith('#')])[:1200]),
                                 batch=150, sig_fn=lambda tr: 'skiplist:' + sig(tr))
        vlib.log('%s: %d states, %d/%d edges in %d schedules, %d real steps, drift %d, mismatch %d' % (tag, r.distinct, cov, tot, len(paths), ssum['steps'], ssum['drift'], ssum['state_mismatch']))
        res.extra['spec_edges_replayed'] = res.extra.get('spec_edges_replayed', 0) + cov; res.extra['spec_edges_total'] = res.extra.get('spec_edges_total', 0) + tot
        res.extra['drift_steps'] = res.extra.get('drift_steps', 0) + ssum['drift'] + ssum['state_mismatch']
        if ssum['drift'] + ssum['state_mismatch']:
            print('SPEC-DRIFT property=C12 skip list replay: %d paths disagree with SkipList.tla' % (ssum['drift'] + ssum['state_mismatch']))
