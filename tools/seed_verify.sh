#!/bin/bash
# confirms a seeded change delivered in a scratch worktree: demo fails with it / passes without it; the named existing tests pass with it (3 rounds)
# usage: seed_verify.sh <worktree> <baseline-cmd (quoted, run in _seed)> <test targets...>
wt=$1; base=$2; shift 2
cd $wt/_seed || exit 2
echo "== $wt: patch $(git -C $wt diff --stat | tail -1)"
timeout 900 ./run_demo.sh > /tmp/sv-with.log 2>&1; echo "demo WITH change: exit $?  ($(tail -1 /tmp/sv-with.log | cut -c1-120))"
timeout 900 bash -c "$base" > /tmp/sv-base.log 2>&1; echo "demo WITHOUT change: exit $?  ($(tail -1 /tmp/sv-base.log | cut -c1-120))"
if [ $# -gt 0 ]; then
  cmake -G Ninja -S $wt -B $wt/_build -DCMAKE_BUILD_TYPE=RelWithDebInfo -DTBB_TEST=ON -DTBB_STRICT=ON > /tmp/sv-cmake.log 2>&1
  cmake --build $wt/_build -j8 --target tbb tbbmalloc "$@" > /tmp/sv-build.log 2>&1 || { echo "BUILD FAILED"; tail -5 /tmp/sv-build.log; }
  re=$(echo "$@" | sed 's/ /|/g')
  for i in 1 2 3; do ctest --test-dir $wt/_build -j8 --timeout 900 -R "^($re)\$" 2>&1 | grep -E "tests passed|tests failed" ; done
  rm -rf $wt/_build
fi
