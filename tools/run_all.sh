#!/bin/sh
# runs every registered quick (or $1=--thorough) check in sequence, one line per check
cd "$(dirname "$0")/.."
mode=${1:---quick}; shift
ids=${*:-$(python3 -c "import json;print(' '.join(c['property_id'] for c in json.load(open('MANIFEST.json'))['checks']))")}
logdir=out/runall; mkdir -p $logdir     # per copy of /verif: a background run in a snapshot must not share its logs with an interactive one
for id in $ids; do
  s=$(date +%s); ./check $id $mode > $logdir/$id.log 2>&1; rc=$?; e=$(date +%s)
  echo "$id rc=$rc $((e-s))s $(grep -cE '^VIOLATION' $logdir/$id.log) violations $(grep -cE '^KNOWN-FINDING' $logdir/$id.log) known $(grep -c SPEC-DRIFT $logdir/$id.log) drift"
done
