#!/bin/sh
# runs every registered quick (or $1=--thorough) check in sequence, one line per check
cd "$(dirname "$0")/.."
mode=${1:---quick}; shift
ids=${*:-$(python3 -c "import json;print(' '.join(c['property_id'] for c in json.load(open('MANIFEST.json'))['checks']))")}
for id in $ids; do
  s=$(date +%s); ./check $id $mode > /tmp/runall-$id.log 2>&1; rc=$?; e=$(date +%s)
  echo "$id rc=$rc $((e-s))s $(grep -cE '^VIOLATION' /tmp/runall-$id.log) violations $(grep -cE '^KNOWN-FINDING' /tmp/runall-$id.log) known $(grep -c SPEC-DRIFT /tmp/runall-$id.log) drift"
done
