#!/usr/bin/env python3
# regenerates /verif/MANIFEST.json from the table below (single source of truth for the interface)
import json, os
HERE = os.path.dirname(os.path.dirname(os.path.abspath(__file__)))
ALL = ['C%02d' % i for i in range(1, 21)]
CHECKS = {
 'C08': dict(
   text='TLC exhaustively model-checks access-granularity PlusCal transcriptions of spin_mutex, spin_rw_mutex (incl. upgrade/downgrade/try), '
        'queuing_mutex, queuing_rw_mutex (every numbered step of acquire/try/release/upgrade/downgrade) and rw_mutex with its sleeping paths '
        '(exclusion, FIFO, upgrade truthfulness, deadlock-freedom = no lost hand-off) for 2-4 threads; every transition of the spin/queuing '
        'state graphs is replayed on the real lock objects under a cooperative scheduler with the state words compared after each step; '
        'property-level events of all replayed executions and of seeded random cooperative schedules over all eight lock types are validated by '
        'TLC against the abstract RWLockAbs machine (every operation of a lock program ends in a schedule point, so a held lock spans at least one step). The lost-hand-off clause under TSO for the sleeping '
        'locks: Monitor instantiated without a notifier fence and with the fact that the releasing write of tbb::mutex::unlock / rw_mutex::unlock / unlock_shared / downgrade is a full operation, probed '
        'from the access sequence of the real calls. Exhaustive within the stated programs; sampled beyond them.',
   note='sequentially consistent replay at one-atomic-access granularity on x86; TSO store-buffer effects only at model level; RTM locks in fall-back mode; futex semantics emulated',
   technique='TLA+/PlusCal protocol specs checked by TLC + edge-complete replay into the real locks + TLC trace validation against RWLockAbs',
   design='4 (C08)'),
}
CHECKS['C04'] = dict(
   text='TLC model-checks CtxTree (bind_to_impl vs cancel_group_execution/disseminator at access granularity, the two mutexes kept distinct as '
        'in the code) and its x86-TSO variant CtxTreeTSO (store buffer on the binder) for contexts G<-{P,S}, C being bound under P, 1-2 cancellers on '
        'G/P, several propagator walk orders; the constants FIXPM/HINTSC are facts probed from the running code (does the propagator take the '
        'propagation mutex; memory order of the hint store). Every edge of every state graph is replayed on real task_group_context objects and '
        'thread_data context lists under a cooperative scheduler (TSO scenarios under an emulated FIFO store buffer), all tracked fields compared '
        'after each step (zero drift on the current tree); the Ctx/Bound/CancelRet/Final histories of all replayed and of seeded random executions '
        'are validated by TLC against CtxAbs (cancelled set = closure of targets, one winner). Exhaustive for the listed scenarios.',
   note='context tree shape and thread roles fixed by the scenarios; mutex acquisitions are atomic steps (mutex correctness is C08); store buffer emulated for the binder only; binder threads stay alive until quiescence (thread exit orphans a context list by design)',
   technique='PlusCal protocol spec (SC + TSO) checked by TLC, edge-complete replay into real code incl. store-buffer emulation, TLC trace validation against CtxAbs',
   design='4 (C04), 6.1, 6.2')
CHECKS['C09'] = dict(
   text='TLC model-checks MicroQueue (tickets, lane choice k*3 mod 8, per-lane turnstiles, page list, invalid entries, failed page allocation; '
        'no duplicate, nothing invented, per-producer FIFO, no dereference of the invalid-page marker) with the constant FIXED probed from the code. '
        'Histories (Inv/Res) of the real concurrent_queue and concurrent_bounded_queue - four page-size classes, capacities 1-3, blocking push/pop, '
        'try variants, abort, negative-size states - recorded under seeded random cooperative schedules at atomic-access granularity with a '
        'stuck detector, and under injected faults (the k-th page allocation / element copy throws; each case in a forked child, a crash is an event; concurrent poppers behind an invalid entry under 150 schedules per fault position), '
        'are checked for linearizability against QueueAbs by TLC (unlogged internal Lin steps). The real-code schedules are sampled, not enumerated.',
   note='schedules of the real-code part are seeded random (not TLC-enumerated); sequentially consistent; 2-4 threads, <= 7 ops per thread; known finding: aborted push leaves a phantom slot (DESIGN 6.9)',
   technique='PlusCal protocol spec checked by TLC + TLC linearizability validation of recorded real histories (incl. fault injection) against QueueAbs',
   design='4 (C09), 6.4, 6.9')
CHECKS['C11'] = dict(
   text='TLC model-checks SegVector (my_size claim by fetch_add, first-block election by CAS on table[0], owner-of-first-index allocates a segment, '
        'others spin on the null pointer) for 3-4 growing threads: ranges tile, each index constructed exactly once by its claimant and never in an '
        'unallocated segment, no deadlock. Executions of the real concurrent_vector (push_back/grow_by/grow_to_at_least, embedded->long table switch) under '
        'seeded random cooperative schedules, fault cases (k-th element copy / allocation throws, forked per case, crash/hang are events), '
        'grow_to_at_least(2^k+r) up to 2^32 on concurrent_vector<char> under a watchdog, and the index->(segment,offset) arithmetic for indices 2^k+r, k<=62, '
        'are validated by TLC against VectorAbs (disjoint tiling ranges, values, address stability, allocation on return).',
   note='real-code schedules are seeded random, not enumerated; grow_to_at_least is required to wait for allocation, not for construction by other threads (documented); post-failure only accesses and destruction are exercised',
   technique='PlusCal protocol spec checked by TLC + TLC trace validation of recorded real executions (random cooperative schedules, fault injection, large sizes) against VectorAbs',
   design='4 (C11), 6.3, 6.5, 6.10')
CHECKS['C03'] = dict(
   text='TLC model-checks EHDispatch (throwing task -> cancel_group_execution winner stores the exception -> remaining tasks skipped -> waiter rethrows and '
        'resets) for every subset of throwing tasks and every interleaving of 2-3 executing threads and the waiter. 18 programs over the real library '
        '(parallel_for x4 partitioners, custom Range, parallel_reduce x3 forms, deterministic reduce, parallel_for_each with feeder, parallel_invoke, '
        'parallel_pipeline, nested task_group, task_arena::execute, parallel_scan, parallel_sort, flow graph) run with the k-th body / join / split ctor / '
        'copy ctor / filter invocation throwing, for every k up to a per-program bound, each case forked, on 3 logical threads of an all-reserved arena '
        'under seeded random cooperative schedules with a stuck detector; each program is called twice (reusability). Call/BB/BE/Throw/Ret/Exc/Obj/Quiesce '
        'events are validated by TLC against GroupEH (one thrown exception surfaces, no live or later body, objects destroyed exactly once).',
   note='one injected fault per execution; schedules sampled (seeded random), not enumerated; known findings: throwing join hangs parallel_reduce, leaked Body in deterministic reduce (DESIGN 6.6)',
   technique='PlusCal protocol model checked by TLC + fault enumeration on the real library with TLC trace validation against GroupEH',
   design='4 (C03), 6.6')
CHECKS['C10'] = dict(
   text='TLC model-checks HashMapRehash (mask read, bucket lock, lazy rehash of the child bucket from its parent, mask-race restart; growth 1->2 buckets, '
        '3 threads x 3 operations: every call returns what the abstract map holds at its linearization point, no key lost / duplicated / resurrected; a model '
        'mutant without the restart is rejected). Histories of the real concurrent_hash_map (insert/find/erase/count, accessor and const_accessor hold '
        'intervals, element-instance destruction events; identity / constant / low-bit-colliding hash, one initial bucket so growth thresholds are crossed) under '
        'seeded random cooperative schedules over every atomic of the map are checked by TLC for linearizability and the per-element lock rules against MapAbs.',
   note='real-code schedules sampled (seeded random cooperative), not TLC-enumerated; the protocol model is bound to the code by the abstract histories only (no step replay)',
   technique='PlusCal protocol model checked by TLC + TLC linearizability / lock-rule validation of recorded real histories against MapAbs',
   design='4 (C10)')
CHECKS['C12'] = dict(
   text='TLC model-checks SplitList (insert-only split-ordered list, unique and multi, 3 inserters incl. equal and adjacent keys: sorted, reachable, exactly one '
        'winner per absent key, nothing lost) and SkipList (the lock-free insert and lower_bound of concurrent_skip_list at shared-access granularity: per-level '
        'search from the loaded max height, level-0 CAS with full re-search, max-height CAS loop, upper-level CAS with re-search from the remembered predecessors; '
        '2-3 inserters incl. equal keys and heights 1-3, a reader: every level always an acyclic sorted sub-list of level 0, one node per key, a key whose insert '
        'returned is found by a search that began later, all levels complete at quiescence). Every edge of the SkipList state graph is replayed on the REAL '
        'concurrent_skip_list (the container\'s own level-generator and allocator template parameters supply the model\'s heights and a tracked node pool), '
        'one shared access per step, comparing the max height and the key sequence of every level after every step; the Inv/Res/Final histories of those replays '
        'and of the eight real container types (insert/find/count and traversals concurrent with inserts; constant / identity / colliding hashes, 2 initial buckets '
        'so the table doubles) under seeded random cooperative schedules are validated by TLC against SetAbs: linearizable presence, one success per absent unique '
        'key, a traversal sees everything inserted before it began, nothing twice, nothing never inserted, ordered containers in order, final contents = successful inserts.',
   note='the unordered containers\' schedules are sampled, not enumerated; the skip-list replay covers the unique-key insert and lower_bound paths (multimap index numbers and '
        'unsafe_* operations are exercised only by the sampled histories); the multiplicity returned by count() on multi containers concurrently with inserts is not constrained (not in the property)',
   technique='PlusCal protocol models checked by TLC, the SkipList graph replayed edge-complete on the real skip list with per-step state comparison, TLC validation of recorded real histories (incl. traversals) against SetAbs',
   design='4 (C12)')
CHECKS['C13'] = dict(
   text='TLC model-checks PQBatch - a transcription of handle_operations / heapify / reheap (what one batch of aggregated operations does to the heap array: first-pass pushes and shortcut pops, deferred pops, reheap, final heapify) over every array of <= 6 elements of 3 values and every batch of <= 3 operations (thorough: 7 / 4 / 3): the array is a heap again, nothing lost or invented, the results are those of some order of the batch - and EVERY transition of that graph is applied to the REAL concurrent_priority_queue by calling its handle_operations on a hand-built operation list (array and mark set white-box); the real outcome is validated by TLC (TracePQBatch, the verdict) and compared with the transcription (drift). TLC model-checks AggrCore (aggregator_generic::execute / start_handle_operations at shared-access granularity: status load, pending load, next store, CAS push, handler_busy spin / set, exchange of the list, per-operation next load and status store, release of handler_busy; 2x2, 3x1, thorough 3x2 operations: one handler at a time, every operation handled exactly once, a caller returns only after its operation was handled, nothing pending at quiescence) and replays EVERY edge on the real aggregator_generic template (operations from a tracked pool), comparing pending / handler_busy / every next and status word per step, TraceAggr as verdict. TLC model-checks Aggregator (pending-stack CAS push, first pusher becomes handler, handler_busy hand-over, two-pass batch handler): every operation '
        'handled exactly once, one handler at a time, no deadlock, conservation. Histories of the real concurrent_priority_queue (push/try_pop, duplicates, '
        'monotone runs, the k-th element copy throwing) under seeded random cooperative schedules are checked by TLC for linearizability against PQAbs '
        '(a generic linearization search: a pop returns a maximum of the contents at its point, fails only when empty, a throwing copy fails only its own push).',
   note='real-code schedules sampled, not enumerated; known finding: a copy/move that throws inside the handler outside the guarded push wedges the queue (DESIGN 6.7)',
   technique='function transcription checked by TLC and replayed transition-complete on the real batch handler (TLC trace validation of the real outcomes) + PlusCal protocol model checked by TLC + TLC linearizability validation of recorded real histories against PQAbs',
   design='4 (C13), 6.7')
CHECKS['C05'] = dict(
   text='TLC model-checks RangePool - a transcription of range_vector<blocked_range<int>, 8> (the depth-limited ring of sub-ranges of the adaptive partitioners: split_to_fill / pop_back / pop_front) for every range of <= 14 (thorough 40) iterations, grains 1-2 (1-5), depth limits 0-3 (0-5): the pieces are non-empty, adjacent, cover every iteration exactly once together with what was popped, respect the depth limit and the grain - and EVERY transition of that graph is applied to the REAL range_vector (ring, indices and depths set white-box); the real outcome is validated by TLC (TraceRangePool, the verdict) and compared with the transcription (drift). TLC enumerates, for every size <= 12 (14 thorough), several grains and both kinds of split (middle split and the partitioners proportional split '
        'with its rounding), every split tree a partitioner may produce on a blocked_range: non-empty, disjoint, exact cover, simple_partitioner chunk bounds. '
        'The subranges handed to the bodies of real parallel_for runs (1-d: 13 sizes x 5 grains x 4 partitioners; 2d/3d/nd; first/last/step; parallel_for_each '
        'with feeder; parallel_invoke; sizes 2^24+-1, 2^31+-1, 2^32+5, 2^40+3, 2^64-2) on 3 logical threads under seeded random cooperative schedules - the '
        'schedule decides the steal pattern that drives the adaptive partitioners - are validated by TLC against RangeCover.',
   note='the depth/divisor/steal-feedback logic of auto/static/affinity partitioners is exercised on the real code only (the model lets them stop splitting anywhere); steal patterns sampled; float split point above 2^24 validated as legal, not predicted',
   technique='function transcription of the partitioners\' range pool checked by TLC and replayed transition-complete on the real range_vector + function transcription checked by TLC and replayed transition-complete on the real batch handler (TLC trace validation of the real outcomes) + TLA+ function specification of range splitting checked by TLC + TLC trace validation of recorded subranges against RangeCover',
   design='4 (C05)')
CHECKS['C06'] = dict(
   text='TLC model-checks Reduce (lazy Body split when the left sibling is still running, zombie Body, join in fold_tree) over complete trees with 4 and 8 '
        'leaves and every start/finish order: result = left-to-right fold, every Body always holds a contiguous interval. Real parallel_reduce (imperative x4 '
        'partitioners, functional form), parallel_deterministic_reduce (leaf set, join tree and float bit pattern compared between a 3-thread and a 1-thread run), '
        'parallel_scan (final pass exactly once per element with the right prefix) and parallel_sort (equal keys, one inversion at a seed-dependent position, '
        'sizes 499/500/501/1000) with symbolic operands under seeded random cooperative schedules are validated by TLC against AlgoAbs.',
   note='steal patterns sampled; for parallel_sort above 12 elements the recorder decides sorted/permutation and TLC only checks the flags (stated weak spot)',
   technique='function transcription checked by TLC and replayed transition-complete on the real batch handler (TLC trace validation of the real outcomes) + TLA+ protocol model checked by TLC + TLC trace validation of symbolic results against AlgoAbs',
   design='4 (C06), 5')
CHECKS['C07'] = dict(
   text='TLC model-checks PipeBuffer - a transcription of the token buffer of a serial filter (input_buffer::try_put_token / try_to_spawn_task_for_next_token / grow: ring indexed by token, low_token, doubling with re-placement) for 7-11 items (thorough 19) with up to 10 (18) tokens in flight, tokens assigned upstream or here: items are processed in token order, each once, a parked item is never overwritten or lost - and EVERY transition of that graph (12 k distinct (ring, operation) pairs) is applied to the REAL r1::input_buffer (src/tbb/parallel_pipeline.cpp compiled into the harness, ring and tokens set white-box); the real outcome is validated by TLC (TracePipeBuf, the verdict) and compared with the transcription (drift). TLC model-checks Pipeline (stage tasks, per-filter input_buffer with low/high tokens, parked ring with growth, token accounting, input-task recycling) '
        'for six mode strings: serial exclusivity, token bound, no duplicate, common in-order sequence, ring indexing, completion, no deadlock. Filter-body '
        'begin/end events of real parallel_pipeline runs for all 39 mode strings of length <= 3 plus six of length 4, token limits 1..3, 0..5 items, '
        'seed-derived per-item stage delays, on 3 logical threads under seeded random cooperative schedules are validated by TLC against PipeAbs.',
   note='arrival orders sampled; the protocol model is bound to the code through the abstract events only (no step replay)',
   technique='function transcription of the token buffer checked by TLC and replayed transition-complete on the real input_buffer + function transcription checked by TLC and replayed transition-complete on the real batch handler (TLC trace validation of the real outcomes) + TLA+ protocol model checked by TLC + TLC trace validation of filter events against PipeAbs',
   design='4 (C07)')
CHECKS['C01'] = dict(
   text='TLC model-checks TaskPool and TaskPoolIso (arena_slot spawn incl. relocation of the pool in prepare_task_pool, get_task / get_task_impl with isolation: skipped tasks, '
        're-publication of the skipped range, holes; steal_task with isolation and roll-back; 1 owner x 2 thieves, one label per shared access, real pool size 64), Mailbox '
        '(task_proxy two-sided claim, outbox push/pop), WaitTree (wait_context / reference_vertex forwarding over a 5-task tree) and PoolState (no lost enqueued task). Every edge of '
        'three TaskPool / TaskPoolIso state graphs (100 k + 105 k + 184 k edges in the quick tier, 380 k more in thorough) is replayed on a real arena_slot inside a real arena with '
        '(head, tail, lock word) compared after every step (zero drift on the current tree), and the Spawn/Got events are validated by TLC (no task returned twice, none lost). '
        'Integrated scenarios (nested groups, tasks that submit tasks to the waited group, enqueued and deferred task handles, run_and_wait, execute) on 2-4 logical threads of '
        'all-reserved arenas under seeded random / PCT cooperative schedules over every scheduler atomic are validated by TLC against SchedAbs (exactly once; the wait covers all work '
        'and sees its writes). PoolState is instantiated with facts probed from the running code (a publisher aborts a clear transaction of the arena state in flight; an aborted '
        'transaction fails - CLEAR_CHECKED): with a fact that differs TLC\'s counterexample (an enqueued task is lost) is the verdict.',
   note='edge-complete replay for the TaskPool / TaskPoolIso instances; Mailbox / WaitTree / PoolState are bound to the code through the integrated scenarios only (TaskStream is replayed under C02); interleavings needing >4 threads are not explored',
   technique='function transcription checked by TLC and replayed transition-complete on the real batch handler (TLC trace validation of the real outcomes) + PlusCal protocol specs checked by TLC, edge-complete replay into the real arena_slot, TLC trace validation against SchedAbs',
   design='4 (C01), 8')
CHECKS['C20'] = dict(
   text='TLC model-checks Suspend (the m_stack_state hand-shake between the suspending thread, a resumer and a third dispatching thread): at most one '
        'continuation, only after resume, only after the stack was left, and eventually exactly one under weak fairness. Real tbb::task::suspend/resume '
        'scenarios (resume from another task on a thief, from the suspend callback itself, from a foreign thread incl. arenas of size 1 = owner recall, two '
        'suspended units resumed in reverse order) on 1-4 logical threads under seeded random cooperative schedules are validated by TLC against SchedAbs '
        '(Suspend/Resume/Continue exactly once, the enclosing wait does not return while a covered unit is suspended, other work keeps running).',
   note='schedules sampled; nested suspension inside a resumed continuation and suspension at nested dispatch levels are not separately driven',
   technique='function transcription checked by TLC and replayed transition-complete on the real batch handler (TLC trace validation of the real outcomes) + TLA+ protocol model (safety + liveness) checked by TLC + TLC trace validation of real suspend/resume runs against SchedAbs',
   design='4 (C20)')
CHECKS['C19'] = dict(
   text='TLC model-checks CallOnce (collaborative_once_flag m_state word: uninitialized / done / runner pointer | transient helper references bounded by the '
        'alignment mask, runner reference count and ready flag, set_completion_state waiting for helpers to drain, exception reset) for 3-4 callers and the '
        'function throwing on attempts {}, {1}, {1,2}: completes exactly once, callers return only after it, one caller per exception, the runner is never touched '
        'after its destruction, and every caller terminates under weak fairness; and ETS (table_lookup: chain of open-addressed arrays, slot claim by CAS, growth by '
        'CAS push, re-insertion at the top level) for 3-4 threads crossing the table doublings: one element and one initialiser call per thread, no sharing, probes '
        'bounded, a freed array never linked. Executions of the real collaborative_call_once (2-8 callers that are threads of an all-reserved arena so helpers '
        'moonlight, function throwing on chosen attempts, nested work, retry after an exception) and of enumerable_thread_specific (both key kinds) / combinable '
        '(2-12 threads x 3 lookups, iteration and combine_each) under seeded random and PCT-style priority cooperative schedules at atomic-access granularity are '
        'validated by TLC against OnceAbs / EtsAbs; a crash or hang of the code under test is an event the abstract spec rejects.',
   note='real-code schedules sampled (seeded random + priority schedules with change points biased to m_state accesses), not TLC-enumerated; sequentially consistent; the protocol models are bound to the code by the abstract events only (no step replay)',
   technique='function transcription checked by TLC and replayed transition-complete on the real batch handler (TLC trace validation of the real outcomes) + PlusCal protocol models (safety + liveness) checked by TLC + TLC trace validation of recorded real executions against OnceAbs / EtsAbs',
   design='4 (C19)')
CHECKS['C02'] = dict(
   text='TLC model-checks ExecSlot (task_arena::execute without a free slot: delegated functor, exit monitor, the three notifications - of the task\'s finalize, of a leaving thread, and the baton of a caller that leaves the wait loop without entering; 3-4 callers, 1-2 slots, functors that wait inside or stay inside: no reachable state in which a caller can never return, every caller returns under weak fairness, each functor runs once; vacuity controls show that each notification is needed) with the fact BATON extracted from the running code by a DIRECTED cooperative schedule that builds the critical state of TLC\'s counterexample on a real arena (probe_exec); the other two notifications are exercised by the scenarios execstay / exec2xNH. TLC model-checks Monitor (concurrent_monitor prepare_wait / commit_wait / cancel_wait against notify, the futex semaphore word 0/1/2 and the monitor mutex) '
        'under sequential consistency and under x86-TSO with the client store buffered, for 1-2 sleepers x 1-2 notifiers, plus termination of every sleeper under '
        'weak fairness; the full fences the protocol relies on are facts observed on the running code (hook stream of prepare_wait / notify_one / notify_all) and fed '
        'into the TSO model, a model without the notifier fence is the vacuity control; the same model is instantiated for the sleepers of tbb::mutex / tbb::rw_mutex (notify_*_relaxed: no notifier fence, '
        'the releasing write of unlock / unlock_shared / downgrade must be a full operation - fact probed from the access sequence of the real calls); PoolState (advertise_new_work vs out_of_work, busy state, '
        'facts: unique busy marker, publishers abort a clear transaction, an aborted transaction fails) and Demand '
        '(thread_request_serializer pending-delta aggregator: no lost delta, estimate = min(limit, total)); TaskStream (the container of enqueued tasks: lanes under try-locked '
        'mutexes and the population mask; no task handed out twice, none stranded in an unadvertised lane) of which every edge (298 k) is replayed on the real task_stream with the '
        'population word and the lane mutex flags compared after every step. Real blocking calls - raw concurrent_monitor '
        '(notify_all / notify_one / notify(pred) / abort_all), bounded queue push/pop, tbb::mutex, rw_mutex incl. upgrade, task_group::wait of an external thread, '
        'task_arena::execute without a free slot, a suspended task resumed from a foreign thread, and enqueue-only programs with real RML worker threads (which are '
        'logical threads of the cooperative scheduler as well: arenas of concurrency 1 / 2, zero-worker soft limit via global_control, two arenas) - run on logical '
        'threads under seeded random and PCT-style priority schedules at atomic-access granularity with total futex emulation, with and without emulated store '
        'buffers, and with scenario variants that enter the sleeping paths on purpose; Prod/Inv/Res/Enq/Begin/Stuck events are validated by TLC against WakeAbs: a '
        'state in which nothing can run although a blocked condition holds or an enqueued task is pending is rejected.',
   note='real-code schedules sampled, not TLC-enumerated; futex semantics emulated; TSO only (no weaker reorderings); the Monitor model covers notify_all, the other notifications are bound through the real-code scenarios only',
   technique='function transcription checked by TLC and replayed transition-complete on the real batch handler (TLC trace validation of the real outcomes) + PlusCal protocol models (SC + TSO + liveness) checked by TLC with memory-order facts extracted from the code + TLC trace validation of real blocking calls under a cooperative scheduler with stuck detection',
   design='4 (C02)')
CHECKS['C16'] = dict(
   text='TLC model-checks Market (transcription of market::update_allotment / adjust_demand / set_active_num_workers and arena::update_request) for every call '
        'sequence of depth 6 (8 thorough) over 3-4 clients on 1-3 priority levels: granted workers sum to min(total demand, limit), nobody gets more than it asked '
        'for, a lower priority level is served only when the higher ones are satisfied, the soft-limit-0 / mandatory rule; and Demand (no demand delta lost on the way '
        'to the thread server), and Mandatory (the mandatory / worker requests an arena reports when advertise_new_work sets and out_of_work clears its two flags: at quiescence the reported mandatory '
        'request equals the flag; instantiated with a fact observed on the real arena by a directed schedule - does out_of_work take the request back while task pools are non-empty). Seeded random call sequences (3 client configurations) are applied to a real r1::market with real arenas as clients; the requests the '
        'arenas computed and the allotment vectors are validated by TLC (TraceMarket: the property invariants evaluated on the observed state are the verdict, '
        'disagreement with the transcription is counted as drift). Real task_arenas (11-16 shapes of max_concurrency / reserved slots / external threads / tasks / '
        'enqueues / global_control limit / observer) run with external logical threads and real RML workers as logical threads under seeded random / PCT cooperative '
        'schedules, each run in a fresh process; current_thread_index, per-arena in-flight sets, worker identities and observer callbacks are validated by TLC '
        'against ArenaAbs (index below the bound and pairwise distinct, workers never in reserved slots, concurrency bound, at most L-1 busy workers, one exit per '
        'entry on the same thread); isolation scenarios are validated against SchedAbs.',
   note='arena schedules sampled; occupancy is sampled inside user bodies; the worker budget is checked for limits set before any parallel work starts; known finding: two external threads inside task_arena(1,1) (DESIGN 6.11)',
   technique='function transcription checked by TLC and replayed transition-complete on the real batch handler (TLC trace validation of the real outcomes) + TLA+ function specification checked by TLC + TLC trace validation of the real market and of real arenas (externals and RML workers under the cooperative scheduler)',
   design='4 (C16), 6.11')
CHECKS['C14'] = dict(
   text='AggrCore (the aggregator that serialises every function_input / buffer operation; see C13) is model-checked and replayed edge-complete on the real aggregator_generic. The abstract specification FlowAbs gives every node the sets of messages offered to it (accepted external puts, puts in flight, outputs of its predecessors - '
        'a forwarding node passes on what it was offered), begun, running and done: a body begins only on an offered message, at most once per node, within the node\'s '
        'concurrency limit, and not after an exception has surfaced; a put that was reported as rejected was not processed; wait_for_all returns only when no body runs '
        'and, in a loss-less graph, everything offered to every body node has been processed. Real graphs (three-node function chains with unlimited / serial / limit-2 / '
        'lightweight / rejecting nodes, broadcast fan-out with a second external source, a throwing body followed by a second wait and graph::reset, an input_node '
        'source, an async_node completed through its gateway from a thread outside the arena under reserve_wait / release_wait, a limiter feedback cycle, a multifunction_node (limit 2 / serial rejecting) that forwards to two output ports, reservations released on buffering nodes with and without an accepting push successor, a reserving join) are built on '
        'logical threads of an all-reserved arena - 2-3 external putters plus one thread that executes graph tasks from the start - and run under seeded random and PCT-style priority cooperative '
        'schedules over every atomic of the graph and the scheduler; the body / put / wait events are validated by TLC (TraceFlow).',
   note='topologies are a fixed catalogue (not randomised); schedules sampled; continue nodes are not driven; no protocol model of function_input / edge switching yet (trace validation only)',
   technique='TLA+ abstract specification + TLC trace validation of recorded executions of real flow graphs under a cooperative scheduler',
   design='4 (C14)')
CHECKS['C15'] = dict(
   text='TLC checks ItemBuffer (function-level spec of item_buffer / reservable_item_buffer and the sequencer placement: ring head / tail / capacity, per-slot state, growth with '
        're-placement, front reservation) and every transition of its state graphs (16 k + 216 k) is replayed on the real reservable_item_buffer<int>, the whole ring compared after each '
        'operation and the returned values validated by TLC against BufAbs (FIFO, sequencer position, nothing lost on release, nothing consumed twice). TLC model-checks Limiter (limiter_node critical sections with my_count / my_tries / my_future_decrement, reserve / consume on the predecessor queue, early '
        'decrements, 2-3 concurrent forwarders, thresholds 1-2): un-decremented forwarded messages never exceed the threshold, FIFO, no duplicate. The ordering clauses of '
        'FlowAbs - queue_node: a message put after another put had returned is not forwarded before it; sequencer_node: exactly 0,1,2,... in order; limiter_node: forwarded '
        'minus decremented stays within the threshold; priority_queue_node: nothing that was buffered when the serial sink asked for its next item beats the item it gets; '
        'queue_node reservations (try_reserve / try_release / try_consume / try_get from three threads): nothing lost, nothing taken twice; overwrite_node / write_once_node: '
        'every successor, also one attached concurrently, ends with the latest / gets exactly the first value; split_node / indexer_node routing; join_node queueing / reserving: the i-th tuple is the i-th message of every port; key_matching: equal keys, every message '
        'used once; the number of complete tuples - are validated by TLC (TraceFlow) on recorded executions of the real nodes fed by 3 external putters (sequence numbers in 4 '
        'permutations, thresholds 1 and 2 with the decrement sent from the successor body, ports of unequal length, a duplicate key offered to one key-matching port) and observed at a serial sink, under seeded random / PCT '
        'cooperative schedules.',
   note='known finding: a refused duplicate put on a key_matching port replaces the buffered message (DESIGN 6.17); schedules sampled; buffer_node (unordered) and key_matching with more than two ports are not driven; item_buffer ring arithmetic is exercised through queue / sequencer / priority nodes only',
   technique='TLA+ function spec (ItemBuffer) with transition-complete replay on the real class + protocol model (Limiter) checked by TLC + TLC trace validation of recorded executions of real flow-graph nodes against FlowAbs / BufAbs',
   design='4 (C15)')
CHECKS['C17'] = dict(
   text='TLC model-checks LifoList (the orphaned-slab list: push on thread exit, pop = adoption, grab = clean-up command; lock flag and top at access granularity; 2-3 threads, 2-3 slabs: every slab is in the list or held by exactly one thread) and replays EVERY edge on the real rml::internal::LifoList with real slab headers (top and the lock flag compared per step; Take / Give / End events validated by TLC against TraceLifo). TLC checks SizeClass (transcription of getSmallObjectIndex / getIndexOrObjectSize) for every request size 1..8128: object size >= request, bins and sizes monotone, one '
        'size per bin, 8-byte alignment for requests <= 8 bytes and 16-byte alignment beyond, bin index in range; and model-checks SlabBlock (one slab with 3 objects: owner malloc / '
        'free, 1-2 foreign threads freeing through the public free list CAS, first freer links the slab into the owner\'s mailbox under mailLock, owner privatises by exchange, thread '
        'exit -> shareOrphaned with the UNUSABLE marker and the wait for an in-flight freer, adoption by a foreign thread) at shared-access granularity: an object is never in two of '
        '{allocated, private free list, public free list, bump area}, never handed out twice, none lost, allocatedCount exact at quiescence, one adopter. The tbbmalloc sources are '
        'compiled into the harness with the instrumentation prelude (every atomic and every MallocMutex is a schedule point): the (bin, object size) table of the real functions, and '
        'seeded random sequences of scalable_malloc / calloc / realloc / aligned_malloc / aligned_realloc / posix_memalign / free / msize / allocation commands (sizes on every class '
        'boundary up to 8.5 MB, alignments to 1 MiB, frees by other threads, a thread that exits early with live blocks) on 1-4 logical threads under random / PCT cooperative schedules '
        'are validated by TLC against the size-class properties and HeapAbs (returned block overlaps no live block, alignment, msize, calloc zero, realloc prefix, fill pattern intact, '
        'reuse only after the free call began); the top of the size range (sizes, products and alignments that cannot be represented, incl. the family calloc(a, b) whose product wraps to a small value) '
        'must be refused (PoolAbs).',
   note='API sequences and schedules sampled; the SlabBlock model is bound to the code through the abstract histories only (no step replay); metadata overlap is visible only through fill patterns; addresses are compared as order-preserving ranks',
   technique='LifoList protocol model replayed edge-complete on the real list + TLA+ function specification + PlusCal protocol model checked by TLC + TLC trace validation of recorded executions of the real allocator against HeapAbs',
   design='4 (C17)')
CHECKS['C18'] = dict(
   text='PoolAbs specifies, over rank-compressed addresses: every pool block lies inside a region obtained from that pool\'s own raw allocator and overlaps no live block of the pool, '
        'pool_identify names the owner, a fixed pool calls its raw allocator once, a region is returned exactly once and never while a live block lies in it, nothing is left after '
        'pool_destroy; a request that cannot be served is reported as a failure, all live blocks keep their fill pattern, and a later request succeeds once memory is available. Seeded '
        'random operation sequences on two real memory pools with instrumented raw callbacks (plain, fixed, and with a run of failing raw allocations starting at a seed-chosen call '
        'index), the default pool with a window of failing OS mappings (mmap seam of the white-box build, each case in a fresh process) and 16 unrepresentable size / alignment '
        'requests on malloc / calloc / aligned_malloc / posix_memalign / realloc / aligned_realloc are validated by TLC (TracePool); the check fails as a harness failure if no '
        'injected failure was reached (vacuity).',
   note='fault positions sampled (runs of consecutive failures at random indices), not all subsets; single-threaded pool sequences; C++ wrappers (memory_pool, memory_pool_allocator throwing bad_alloc) are not driven',
   technique='TLA+ abstract specification + TLC trace validation of recorded executions of real memory pools and of the default pool under injected allocation failures',
   design='4 (C18)')
REASON_PENDING = 'check not built yet in this round (planned in DESIGN.md section 4); no verdict is claimed'
m = {
 'version': 1,
 'setup_cmd': './setup',
 'hooks': {'guard': '__TBB_VERIF',
           'enable': 'no source line of /repo references the guard: harnesses and src/tbb are compiled from the working tree with -D__TBB_VERIF=1 -include engine/prelude/verif_prelude.h (std::atomic -> instrumented wrapper), see DESIGN.md 2.1',
           'baseline_off_cmd': 'cmake --build /repo/_build && ctest --test-dir /repo/_build -j8 --timeout 900',
           'source_commits': [], 'add_only': True},
 'engines': [{'name': 'tla-bind', 'path': 'engine', 'serves_properties': sorted(CHECKS),
              'kind_free_text': 'TLA+/PlusCal specs + TLC; cooperative scheduler replaying TLC behaviours into the real code; TLC trace validation'}],
 'checks': [], 'not_applicable': [],
 'notes': 'All verdicts come from TLC: either a protocol/abstract model re-checked with facts from the code, or a recorded execution of the real code rejected by the abstract spec.'}
for pid in ALL:
    if pid in CHECKS:
        c = CHECKS[pid]
        m['checks'].append({'property_id': pid, 'quick_cmd': './check %s --quick' % pid, 'thorough_cmd': './check %s --thorough' % pid,
                            'evidence_file': 'evidence/%s.json' % pid, 'replay_cmd_template': './check %s --replay {path}' % pid,
                            'engine': 'tla-bind', 'level_claimed': {'category': 'model_checking', 'text': c['text'], 'design_ref': c['design']},
                            'level_note': c['note'], 'technique': c['technique']})
    else:
        m['not_applicable'].append({'property_id': pid, 'reason': REASON_PENDING})
json.dump(m, open(os.path.join(HERE, 'MANIFEST.json'), 'w'), indent=1)
print('MANIFEST.json: %d checks, %d not_applicable' % (len(m['checks']), len(m['not_applicable'])))
