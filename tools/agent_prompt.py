#!/usr/bin/env python3
# prints the prompt given to a fresh sub-agent that is asked for a property-breaking change (DESIGN.md 8: seeded changes).
# usage: agent_prompt.py <Cxx> <worktree> [variant-hint]
import sys, json
pid, wt = sys.argv[1], sys.argv[2]
hint = sys.argv[3] if len(sys.argv) > 3 else ''
p = next(json.loads(l) for l in open('/verif/properties.jsonl') if json.loads(l)['id'] == pid)
print('''You are helping to evaluate a verification effort for the oneTBB C++ library (oneapi-src/oneTBB). Your job: produce ONE realistic
source change ("seeded defect") to oneTBB that BREAKS the semantic property quoted below while the library still compiles and the
existing test suite still passes, plus a demonstration that fails with your change and passes without it.

Work ONLY inside your own scratch git worktree of the repository: %(wt)s  (already created; it is a detached checkout of the pinned
commit). Never touch /repo itself and do not read or write anything under /verif. There is no network. The machine is shared with
other jobs: never use more than 6 parallel build jobs (-j6).

## The property (%(id)s): %(title)s

Statement: %(statement)s

Quantifier: %(qtext)s

Why the existing tests cannot settle it: %(why)s

Anchors (files / mechanisms the property lives in):
%(anchors)s

## What kind of change is wanted

* A small edit (typically 1-10 lines) of the library sources (include/oneapi/tbb/**, src/tbb/**, src/tbbmalloc/**) such as a
  maintainer could plausibly introduce in a refactoring or "optimisation": a dropped re-check, a weakened condition or memory order, an
  off-by-one at a boundary, a missing fence/notification, a wrong branch on a rare path, two sites that each look fine alone.
* It must need something SPECIFIC to manifest: a particular interleaving of 2-3 threads, a fault (exception / failed allocation) at a
  particular point, a multi-step sequence of operations, or an unusual input (boundary size etc.). It must NOT be a change that
  ordinary use would expose at once (the existing tests must keep passing, repeatedly).
* It must genuinely violate the property as stated (not merely crash in an unrelated way, and not only in debug/assert builds).
%(hint)s
## What to deliver (all inside %(wt)s/_seed/)

1. `patch.diff`  - `git diff` of your change against the pinned commit (library sources only; do not include the demonstration).
2. a demonstration: a small stand-alone C++ program `demo.cpp` (plus `run_demo.sh` that builds and runs it against the worktree's
   headers/library) that FAILS (non-zero exit, clear message) with the change and PASSES without it. If the defect needs a rare
   interleaving, make the demonstration deterministic or highly probable: e.g. loop many times, use many threads, or - in the demo only -
   widen the window with a sleep/yield injected through a macro or a user callback; you may build the library sources directly into the
   demo with extra -D flags. State honestly how reliably it fails.
3. `meta.json`: {"property": "%(id)s", "summary": "...what the change does...", "needs": "...what it needs in order to manifest...",
   "tests_run": "...which existing tests you built and ran with the change and their result...", "demo_reliability": "..."}

## How to build and run the existing tests in the worktree

  cmake -G Ninja -S %(wt)s -B %(wt)s/_build -DCMAKE_BUILD_TYPE=RelWithDebInfo -DTBB_TEST=ON -DTBB_STRICT=ON
  cmake --build %(wt)s/_build -j6 --target <targets>     (targets: tbb, tbbmalloc, and test names such as test_task_group ...)
  ctest --test-dir %(wt)s/_build -j6 --timeout 900 [-R <regex>]

A full build of all ~136 tests takes a long time; at minimum build and run every test that exercises the component you changed
(by name: test_* and conformance_* for that component, plus test_task, test_task_group, test_task_arena, test_scheduler_mix,
test_parallel_for, test_eh_algorithms if you touched the scheduler), each at least 3 times, and say exactly which you ran. If you can
afford it, run the full suite once. (test_tcm_enabled / test_tcm_disabled fail on the unmodified tree too; ignore them.)

When done, leave the worktree in place with `_seed/` filled in and your change applied in the working tree (uncommitted), remove the
`_build` directory to save disk space (rm -rf %(wt)s/_build), and reply with a short report: the idea, the diff, what is needed to
trigger it, which tests passed, how the demo behaves with / without the change.
''' % dict(wt=wt, id=p['id'], title=p['title'], statement=p['statement'], qtext=p['quantifier']['text'], why=p['why_tests_cant'],
           anchors=json.dumps(p['anchors'], indent=1), hint=('* Preferred area for this change: ' + hint + '\n') if hint else ''))
