// Force-included instrumentation header (DESIGN.md 2.1).  Compiled into every harness TU and every
// src/tbb / src/tbbmalloc TU with `-include verif_prelude.h`.  It turns every std::atomic<T> of the library into
// a schedule point without editing /repo: std::atomic -> std::verif_atomic (same layout, derives from the real one).
// Guard macro: __TBB_VERIF (defined here; no line of /repo references it).
#pragma once
// pre-include everything std that mentions atomic
#include <atomic>
#include <memory>
#include <mutex>
#include <thread>
#include <condition_variable>
#include <future>
#include <functional>
#include <string>
#include <vector>
#include <unordered_map>
#include <map>
#include <set>
#include <deque>
#include <list>
#include <algorithm>
#include <iostream>
#include <sstream>
#include <chrono>
#include <exception>
#include <stdexcept>
#include <typeinfo>
#include <tuple>
#include <array>
#include <cstdint>
#include <cstring>
#include <cstdlib>
#include <cstdio>
#include <new>
#include <limits>
#include <iterator>
#include <utility>
#include <type_traits>
#include <initializer_list>
#include <numeric>
#include <random>
#include <bitset>
#include <unordered_set>
#include <queue>
#include <stack>
#include <climits>
#include <cmath>
#include <cerrno>
#include <cassert>
#include <cstddef>
#include <cstdarg>
#include <clocale>
#include <locale>
#include <fstream>
#include <iomanip>
#include <memory_resource>
#include <shared_mutex>
#include <optional>
#include <variant>
#include <any>
#include <string_view>


#ifndef __TBB_VERIF
#define __TBB_VERIF 1
#endif
// kind: 0 load, 1 store, 2 rmw, 3 cas, 4 fence.  Called BEFORE the access is performed.
extern "C" void verif_atomic_hook(const void* addr, int kind, int order, unsigned size);
// TSO store-buffer emulation (no-ops unless a harness enables it for the calling logical thread)
extern "C" int  verif_tso_store(void* addr, const void* val, unsigned size, int order); // 1 = buffered (do not store)
extern "C" int  verif_tso_load(const void* addr, void* out, unsigned size);              // 1 = forwarded from own buffer
extern "C" void verif_tso_flush();
extern "C" int  verif_tso_active;

namespace verif {
template <class T> using real_atomic = std::atomic<T>;
enum { K_LOAD=0, K_STORE=1, K_RMW=2, K_CAS=3, K_FENCE=4 };
template <class T> inline T rawload(const std::atomic<T>& a) { return a.load(std::memory_order_seq_cst); }
}
namespace std {
template <class T>
struct verif_atomic : ::verif::real_atomic<T> {
    using base = ::verif::real_atomic<T>;
    verif_atomic() noexcept = default;
    constexpr verif_atomic(T v) noexcept : base(v) {}
    verif_atomic(const verif_atomic&) = delete;
    verif_atomic& operator=(const verif_atomic&) = delete;
    T operator=(T v) noexcept { store(v); return v; }
    T operator=(T v) volatile noexcept { const_cast<verif_atomic*>(this)->store(v); return v; }
    operator T() const noexcept { return load(); }
#define VH(k,o) verif_atomic_hook(this, k, (int)(o), (unsigned)sizeof(T))
#define VF() do { if (verif_tso_active) verif_tso_flush(); } while(0)
    T load(memory_order o = memory_order_seq_cst) const noexcept {
        VH(0,o);
        if (verif_tso_active) { alignas(T) unsigned char tmp[sizeof(T)]; if (verif_tso_load(this, tmp, sizeof(T))) { T r; __builtin_memcpy(&r, tmp, sizeof(T)); return r; } }
        return base::load(o);
    }
    void store(T v, memory_order o = memory_order_seq_cst) noexcept {
        VH(1,o);
        if (verif_tso_active) { if (o != memory_order_seq_cst && verif_tso_store(this, &v, sizeof(T), (int)o)) return; verif_tso_flush(); }
        base::store(v, o);
    }
    T exchange(T v, memory_order o = memory_order_seq_cst) noexcept { VH(2,o); VF(); return base::exchange(v, o); }
    bool compare_exchange_strong(T& e, T d, memory_order s = memory_order_seq_cst) noexcept { VH(3,s); VF(); return base::compare_exchange_strong(e, d, s); }
    bool compare_exchange_strong(T& e, T d, memory_order s, memory_order f) noexcept { VH(3,s); VF(); return base::compare_exchange_strong(e, d, s, f); }
    bool compare_exchange_weak(T& e, T d, memory_order s = memory_order_seq_cst) noexcept { VH(3,s); VF(); return base::compare_exchange_strong(e, d, s); }
    bool compare_exchange_weak(T& e, T d, memory_order s, memory_order f) noexcept { VH(3,s); VF(); return base::compare_exchange_strong(e, d, s, f); }
    template<class A> T fetch_add(A v, memory_order o = memory_order_seq_cst) noexcept { VH(2,o); VF(); return base::fetch_add(v, o); }
    template<class A> T fetch_sub(A v, memory_order o = memory_order_seq_cst) noexcept { VH(2,o); VF(); return base::fetch_sub(v, o); }
    template<class A> T fetch_and(A v, memory_order o = memory_order_seq_cst) noexcept { VH(2,o); VF(); return base::fetch_and(v, o); }
    template<class A> T fetch_or(A v, memory_order o = memory_order_seq_cst) noexcept { VH(2,o); VF(); return base::fetch_or(v, o); }
    template<class A> T fetch_xor(A v, memory_order o = memory_order_seq_cst) noexcept { VH(2,o); VF(); return base::fetch_xor(v, o); }
#undef VH
#undef VF
    template<class U=T> U operator++() noexcept { return fetch_add(1) + 1; }
    template<class U=T> U operator++(int) noexcept { return fetch_add(1); }
    template<class U=T> U operator--() noexcept { return fetch_sub(1) - 1; }
    template<class U=T> U operator--(int) noexcept { return fetch_sub(1); }
    template<class A> T operator+=(A v) noexcept { return fetch_add(v) + v; }
    template<class A> T operator-=(A v) noexcept { return fetch_sub(v) - v; }
    template<class A> T operator&=(A v) noexcept { return fetch_and(v) & v; }
    template<class A> T operator|=(A v) noexcept { return fetch_or(v) | v; }
    template<class A> T operator^=(A v) noexcept { return fetch_xor(v) ^ v; }
};
// std::atomic_flag (tbbmalloc's MallocMutex, __TBB_InitOnce): an aggregate with the same brace initialisation (ATOMIC_FLAG_INIT) whose
// test_and_set / clear are schedule points - a spin lock built on it must never be spun on while its holder is parked
struct verif_atomic_flag {
    ::std::atomic_flag f;
    bool test_and_set(memory_order o = memory_order_seq_cst) noexcept { verif_atomic_hook(this, 2, (int)o, (unsigned)sizeof(f)); if (verif_tso_active) verif_tso_flush(); return f.test_and_set(o); }
    bool test_and_set(memory_order o = memory_order_seq_cst) volatile noexcept { return const_cast<verif_atomic_flag*>(this)->test_and_set(o); }
    void clear(memory_order o = memory_order_seq_cst) noexcept { verif_atomic_hook(this, 1, (int)o, (unsigned)sizeof(f)); if (verif_tso_active) verif_tso_flush(); f.clear(o); }
    void clear(memory_order o = memory_order_seq_cst) volatile noexcept { const_cast<verif_atomic_flag*>(this)->clear(o); }
};
inline void verif_atomic_thread_fence(memory_order o) noexcept {
    verif_atomic_hook(nullptr, 4, (int)o, 0);
    if (verif_tso_active && o == memory_order_seq_cst) verif_tso_flush();
    __atomic_thread_fence((int)o);
}
}
#include <unistd.h>
#include <sys/syscall.h>
extern "C" long verif_syscall(long nr, ...);
#define syscall verif_syscall
// threads created by the library while a logical thread runs (RML workers) become logical threads of the cooperative scheduler
#include <pthread.h>
extern "C" int verif_pthread_create(pthread_t*, const pthread_attr_t*, void* (*)(void*), void*);
#define pthread_create verif_pthread_create
#define atomic_thread_fence verif_atomic_thread_fence
#define atomic_flag verif_atomic_flag
#define atomic verif_atomic
