# Shared machinery of the oneTBB TLA+ verification framework (DESIGN.md section 2).
#   * building /repo's current working tree with the instrumentation prelude (content-hash cached)
#   * running TLC (exhaustive / simulate / graph dump) and parsing its statistics
#   * state graph -> edge-cover schedules
#   * TLC trace validation of recorded executions of the real code
#   * evidence files, known findings, VIOLATION reporting
import os, sys, re, json, time, hashlib, subprocess, shutil, collections, glob, random, tempfile
from concurrent.futures import ThreadPoolExecutor

VERIF = os.path.dirname(os.path.dirname(os.path.dirname(os.path.abspath(__file__))))
REPO = os.environ.get('VERIF_REPO', '/repo')
# a run against another tree (VERIF_REPO=<scratch worktree>, used to try seeded changes) keeps its build products, replays and evidence apart
ALT = REPO != '/repo'
BUILD = os.environ.get('VERIF_BUILD') or os.path.join(VERIF, 'build-alt' if ALT else 'build')
OUT = os.path.join(BUILD, 'out') if ALT else os.path.join(VERIF, 'out')
EVIDENCE = os.path.join(BUILD, 'evidence') if ALT else os.path.join(VERIF, 'evidence')
SPEC = os.path.join(VERIF, 'spec')
HARNESS = os.path.join(VERIF, 'harness')
PRELUDE = os.path.join(VERIF, 'engine', 'prelude', 'verif_prelude.h')
COSCHED_DIR = os.path.join(VERIF, 'engine', 'cosched')
TLA_CP = '/opt/veriftools/tla/tla2tools.jar:/opt/veriftools/tla/CommunityModules-deps.jar'
NCPU = os.cpu_count() or 8


class HarnessFailure(Exception):
    """model / harness failure (exit 2) - never a verdict"""


def log(*a):
    print('[verif]', *a, file=sys.stderr, flush=True)


def sh(cmd, timeout=None, cwd=None, env=None, check=False, stdin=None):
    e = dict(os.environ)
    if env:
        e.update(env)
    p = subprocess.run(cmd, shell=isinstance(cmd, str), cwd=cwd, env=e, timeout=timeout,
                       stdout=subprocess.PIPE, stderr=subprocess.PIPE, text=True, input=stdin, errors='replace')
    if check and p.returncode != 0:
        raise HarnessFailure('command failed (%d): %s\n%s\n%s' % (p.returncode, cmd, p.stdout[-3000:], p.stderr[-3000:]))
    return p


# ------------------------------------------------------------------------------------------------ building
def _hash_files(paths):
    h = hashlib.sha1()
    for p in sorted(paths):
        h.update(p.encode())
        try:
            with open(p, 'rb') as f:
                h.update(f.read())
        except OSError:
            h.update(b'<missing>')
    return h.hexdigest()[:16]


def _walk(root, exts):
    res = []
    for d, _, fs in os.walk(root):
        for f in fs:
            if f.endswith(exts):
                res.append(os.path.join(d, f))
    return res


_repo_hash = None


def repo_hash():
    """content hash of everything a harness can see of /repo's working tree"""
    global _repo_hash
    if _repo_hash is None:
        files = _walk(os.path.join(REPO, 'include'), ('.h', '.hpp')) + _walk(os.path.join(REPO, 'src'), ('.h', '.cpp', '.hpp'))
        files += [PRELUDE]
        _repo_hash = _hash_files(files)
    return _repo_hash


CXX = os.environ.get('VERIF_CXX', 'g++')
BASE_FLAGS = ['-std=c++17', '-O1', '-g0', '-pthread', '-fno-access-control', '-Wno-deprecated-declarations', '-w',
              '-D__TBB_VERIF=1', '-I' + os.path.join(REPO, 'include'), '-I' + os.path.join(REPO, 'src'), '-I' + COSCHED_DIR, '-I' + os.path.join(VERIF, 'harness', 'common'),
              '-mrtm', '-mwaitpkg']


def _gc_old(prefix, keep):
    os.makedirs(BUILD, exist_ok=True)
    for d in glob.glob(os.path.join(BUILD, prefix + '-*')):
        if os.path.basename(d) != keep:
            shutil.rmtree(d, ignore_errors=True)


def build_cosched():
    h = _hash_files(_walk(COSCHED_DIR, ('.h', '.cpp')))
    d = os.path.join(BUILD, 'cosched-' + h)
    o = os.path.join(d, 'cosched.o')
    if not os.path.exists(o):
        _gc_old('cosched', 'cosched-' + h)
        os.makedirs(d, exist_ok=True)
        sh([CXX, '-std=c++17', '-O2', '-pthread', '-c', os.path.join(COSCHED_DIR, 'cosched.cpp'), '-o', o + '.tmp.o'], check=True)
        os.replace(o + '.tmp.o', o)
    return o


def build_tbb_lib():
    """all of src/tbb compiled from the current working tree with the prelude -> static archive"""
    h = repo_hash()
    d = os.path.join(BUILD, 'tbb-' + h)
    lib = os.path.join(d, 'libtbb_verif.a')
    if os.path.exists(lib):
        return lib
    _gc_old('tbb', 'tbb-' + h)
    os.makedirs(d, exist_ok=True)
    srcs = sorted(glob.glob(os.path.join(REPO, 'src', 'tbb', '*.cpp')))
    flags = BASE_FLAGS + ['-D__TBB_BUILD', '-D__TBB_DYNAMIC_LOAD_ENABLED=0', '-include', PRELUDE, '-fPIC']
    t0 = time.time()

    def comp(s):
        o = os.path.join(d, os.path.basename(s)[:-4] + '.o')
        p = sh([CXX] + flags + ['-c', s, '-o', o])
        return (s, o, p)
    with ThreadPoolExecutor(NCPU) as ex:
        res = list(ex.map(comp, srcs))
    for s, o, p in res:
        if p.returncode != 0:
            raise HarnessFailure('cannot compile %s with the prelude:\n%s' % (s, p.stderr[-3000:]))
    sh(['ar', 'rcs', lib + '.tmp'] + [o for _, o, _ in res], check=True)
    os.replace(lib + '.tmp', lib)
    log('built instrumented src/tbb (%d files) in %.1fs' % (len(srcs), time.time() - t0))
    return lib


def build_harness(name, sources, extra_flags=(), link_tbb=True, prelude=True, cosched=True, extra_dep_files=()):
    """compile a harness against the current /repo tree; cached by (repo hash, harness sources, flags)"""
    srcs = [s if os.path.isabs(s) else os.path.join(HARNESS, s) for s in sources]
    deps = list(srcs) + _walk(os.path.join(HARNESS, 'common'), ('.h',)) + _walk(COSCHED_DIR, ('.h', '.cpp')) + list(extra_dep_files)
    for s in srcs:
        deps += _walk(os.path.dirname(s), ('.h',))
    h = hashlib.sha1((repo_hash() + _hash_files(deps) + ' '.join(extra_flags) + str(link_tbb) + str(prelude)).encode()).hexdigest()[:16]
    d = os.path.join(BUILD, 'h-%s-%s' % (name, h))
    exe = os.path.join(d, name)
    if os.path.exists(exe):
        return exe
    _gc_old('h-%s' % name, os.path.basename(d))
    os.makedirs(d, exist_ok=True)
    flags = BASE_FLAGS + list(extra_flags)
    if prelude:
        flags += ['-include', PRELUDE]
    objs = []
    if cosched:
        objs.append(build_cosched())
    libs = []
    if link_tbb:
        flags += ['-D__TBB_BUILD', '-D__TBB_DYNAMIC_LOAD_ENABLED=0']
        libs.append(build_tbb_lib())
    t0 = time.time()
    p = sh([CXX] + flags + srcs + objs + libs + ['-o', exe + '.tmp', '-lpthread', '-ldl'])
    if p.returncode != 0:
        raise HarnessFailure('cannot build harness %s:\n%s' % (name, p.stderr[-4000:]))
    os.replace(exe + '.tmp', exe)
    log('built harness %s in %.1fs' % (name, time.time() - t0))
    return exe


# ------------------------------------------------------------------------------------------------ TLC
class TlcResult:
    def __init__(self):
        self.rc = None; self.out = ''; self.generated = 0; self.distinct = 0; self.violation = None
        self.deadlock = False; self.wall = 0.0; self.finished = False; self.error_trace = []; self.depth = 0

    def ok(self):
        return self.finished and self.violation is None and not self.deadlock


_tlc_counter = [0]


def _metadir(tag):
    _tlc_counter[0] += 1
    d = os.path.join(BUILD, 'tlc', '%s-%d-%d' % (tag, os.getpid(), _tlc_counter[0]))
    shutil.rmtree(d, ignore_errors=True)
    os.makedirs(d, exist_ok=True)
    return d


def pcal(tla_path):
    """translate a PlusCal algorithm in place if the translation is missing or stale; returns path"""
    return tla_path


def tlc(spec_dir, module, cfg, workers=None, simulate=None, depth=None, dump=None, timeout=1100, env=None, jvm=(),
        extra=(), deadlock=True, seed=None, coverage=False, xmx='12g'):
    """run TLC on spec_dir/module.tla with spec_dir/cfg.  Returns TlcResult."""
    md = _metadir(module)
    cmd = ['java', '-XX:+UseParallelGC', '-Xss256m', '-Xmx' + xmx] + list(jvm) + ['-cp', TLA_CP, 'tlc2.TLC', '-metadir', md,
           '-workers', str(workers or min(NCPU, 16)), '-config', cfg, '-noGenerateSpecTE']
    if not deadlock:
        cmd += ['-deadlock']
    if simulate:
        cmd += ['-simulate', simulate]
    if depth:
        cmd += ['-depth', str(depth)]
    if dump:
        cmd += ['-dump', 'dot,actionlabels', dump]
    if seed is not None:
        cmd += ['-seed', str(seed)]
    if coverage:
        cmd += ['-coverage', '1']
    cmd += list(extra) + [module + '.tla']
    t0 = time.time()
    r = TlcResult()
    try:
        p = sh(cmd, cwd=spec_dir, timeout=timeout, env=env)
        r.rc = p.returncode; r.out = p.stdout + p.stderr
    except subprocess.TimeoutExpired as e:
        r.rc = 124; r.out = (e.stdout or b'').decode(errors='replace') if isinstance(e.stdout, bytes) else (e.stdout or '')
    r.wall = time.time() - t0
    shutil.rmtree(md, ignore_errors=True)
    m = re.findall(r'(\d+) states generated, (\d+) distinct states found', r.out)
    if m:
        r.generated, r.distinct = int(m[-1][0]), int(m[-1][1])
    m = re.search(r'The depth of the complete state graph search is (\d+)', r.out)
    if m:
        r.depth = int(m.group(1))
    r.finished = 'Model checking completed' in r.out or 'Finished in' in r.out
    m = re.search(r'Error: Invariant (\S+) is violated', r.out)
    if m:
        r.violation = m.group(1)
    elif 'Error: Deadlock reached' in r.out:
        r.deadlock = True
    elif re.search(r'Error: Temporal properties were violated|Error: Action property .* is violated', r.out):
        r.violation = 'temporal'
    elif 'Error:' in r.out and 'violated' in r.out:
        r.violation = 'unknown'
    if r.rc not in (0, 12, 13, 10, 11, 124) and not r.finished and r.violation is None and not r.deadlock:
        # parse errors, spec errors, JVM failures
        raise HarnessFailure('TLC failed on %s/%s (%s), rc=%s:\n%s' % (spec_dir, module, cfg, r.rc, r.out[-3000:]))
    return r


def tlc_must_hold(res, what):
    if res.rc == 124:
        raise HarnessFailure('TLC timed out on %s' % what)
    if not res.finished:
        raise HarnessFailure('TLC did not finish on %s:\n%s' % (what, res.out[-2000:]))


def extract_error_trace(out):
    """TLC counterexample -> list of (action header, {var: text})"""
    states = []
    cur = None
    for line in out.splitlines():
        m = re.match(r'^State (\d+): <?(.*?)>?$', line)
        if m:
            cur = {'n': int(m.group(1)), 'action': m.group(2), 'vars': {}}
            states.append(cur)
            continue
        if cur is not None:
            m = re.match(r'^/\\ (\w+) = (.*)$', line)
            if m:
                cur['vars'][m.group(1)] = m.group(2)
                cur['_last'] = m.group(1)
            elif line.strip() == '':
                cur = None if (cur and cur['vars']) else cur
            elif cur.get('_last'):
                cur['vars'][cur['_last']] += ' ' + line.strip()
    for s in states:
        s.pop('_last', None)
    return states


# ------------------------------------------------------------------------------------------------ graph -> schedules
_node_re = re.compile(r'^(-?\d+) \[label="((?:[^"\\]|\\.)*)"(,style = filled)?')
_edge_re = re.compile(r'^(-?\d+) -> (-?\d+) \[label="([A-Za-z_0-9]+)(?:\(([^)]*)\))?"')


def parse_dot(dot, vars_, raw=False):
    """returns (nodes{id: projected string}, edges{id: [(dst,label,arg)]}, init)"""
    nodes = {}; edges = collections.defaultdict(list); init = None
    pats = [(v, re.compile(r'[\\] ' + v + r' = ((?:[^\\]|\\[^n/])*)')) for v in vars_]
    if raw:   # values may be wrapped over several lines: take everything up to the next conjunct
        pats = [(v, re.compile(r'/\\\\ ' + v + r' = (.*?)(?=\\n/\\\\ |$)')) for v in vars_]
    with open(dot) as f:
        for line in f:
            m = _edge_re.match(line)
            if m:
                if m.group(3) != 'Terminating':
                    ed = (m.group(2), m.group(3), (m.group(4) if m.group(4) is not None else '0').replace('\\"', '').replace('"', ''))
                    if ed not in edges[m.group(1)]:
                        edges[m.group(1)].append(ed)
                continue
            m = _node_re.match(line)
            if m:
                txt = m.group(2)
                vals = []
                for v, pat in pats:
                    mm = pat.search(txt)
                    if not mm:
                        raise HarnessFailure('variable %s not found in dot node label' % v)
                    if raw:
                        vals.append(re.sub(r'\\n\s*', ' ', mm.group(1)).strip())
                    else:
                        vals += re.findall(r'-?\d+|TRUE|FALSE|\\"[^\\]*\\"', mm.group(1))
                nodes[m.group(1)] = ('\x1f' if raw else ',').join(x.replace('\\"', '') for x in vals)
                if m.group(3):
                    init = m.group(1)
    return nodes, edges, init


def edge_cover(nodes, edges, init, max_len=800, limit=None, seed=0):
    """greedy edge cover: list of paths, each a list of (thread/arg, label, projected target state).
    Every edge of the reachable graph appears in at least one path (unless `limit` paths is reached)."""
    parent = {init: None}; dq = collections.deque([init])
    while dq:
        u = dq.popleft()
        for (v, l, t) in edges.get(u, ()):
            if v not in parent:
                parent[v] = (u, l, t); dq.append(v)

    def path_to(u):
        p = []
        while parent[u] is not None:
            pu, l, t = parent[u]; p.append((t, l, nodes[u])); u = pu
        return p[::-1]
    covered = set(); paths = []; total_edges = 0
    order = [u for u in nodes if u in parent]
    for u in order:
        total_edges += len(edges.get(u, ()))
    rng = random.Random(seed)
    for u in order:
        while True:
            unc = [e for e in edges.get(u, ()) if (u,) + e not in covered]
            if not unc:
                break
            p = path_to(u); cur = u
            while len(p) < max_len:
                unc = [e for e in edges.get(cur, ()) if (cur,) + e not in covered]
                if not unc:
                    break
                v, l, t = unc[0]; covered.add((cur, v, l, t)); p.append((t, l, nodes[v])); cur = v
            paths.append(p)
            if limit and len(paths) >= limit:
                return paths, len(covered), total_edges
    return paths, len(covered), total_edges


def write_schedules(paths, fn):
    with open(fn, 'w') as f:
        for p in paths:
            f.write(' '.join('%s:%s:%s' % x for x in p) + '\n')


def split_file(fn, n):
    lines = open(fn).read().splitlines()
    parts = []
    for i in range(n):
        part = lines[i::n]
        if part:
            pf = '%s.part%d' % (fn, i)
            open(pf, 'w').write('\n'.join(part) + '\n')
            parts.append(pf)
    return parts


def run_parallel(cmds, timeout=1100, env=None):
    """run commands concurrently; returns list of CompletedProcess (or None on timeout)"""
    def one(c):
        try:
            return sh(c, timeout=timeout, env=env)
        except subprocess.TimeoutExpired:
            return None
    with ThreadPoolExecutor(min(len(cmds), NCPU) or 1) as ex:
        return list(ex.map(one, cmds))


# ------------------------------------------------------------------------------------------------ trace validation
def validate_trace_file(spec_dir, module, cfg, trace_file, timeout=900, xmx='8g'):
    """TLC trace validation: trace spec has INVARIANT NotAccepted (violated <=> the whole trace was explained).
    returns (accepted, TlcResult)"""
    r = tlc(spec_dir, module, cfg, workers=1, timeout=timeout, env={'TRACE': trace_file}, deadlock=False, xmx=xmx,
            jvm=['-Dtlc2.tool.queue.IStateQueue=StateDeque'])
    if r.rc == 124:
        raise HarnessFailure('trace validation timed out on %s' % trace_file)
    accepted = (r.violation == 'NotAccepted')
    if not accepted and ('TLC threw an unexpected exception' in r.out or 'Error: Evaluating' in r.out or 'was not in the domain' in r.out
                         or 'Attempted to' in r.out or 'is either undefined' in r.out or 'StackOverflowError' in r.out or 'OutOfMemoryError' in r.out):
        # an evaluation error of the trace spec is a model/harness failure, never a rejection
        raise HarnessFailure('TLC evaluation error while validating %s:\n%s' % (trace_file, r.out[-2500:]))
    if not accepted and r.violation is not None:
        # another invariant of the abstract spec was violated along the recorded execution -> rejection
        return False, r
    if not accepted and not r.finished:
        raise HarnessFailure('trace validation failed to run on %s:\n%s' % (trace_file, r.out[-3000:]))
    return accepted, r


def validate_traces(spec_dir, module, cfg, traces, tag, batch=200, timeout=900):
    """traces: list of lists of event dicts (one list per recorded execution).  Executions are concatenated with
    {"e":"Reset"} lines (the trace spec's TReset action re-initialises the abstract state).  On a rejected batch the
    batch is bisected to find the first rejected execution.  Returns (n_accepted, first_rejected_index_or_None, stats)"""
    os.makedirs(os.path.join(BUILD, 'traces'), exist_ok=True)
    stats = {'states': 0, 'transitions': 0, 'tlc_runs': 0}

    def write(idx_list, fn):
        with open(fn, 'w') as f:
            first = True
            for i in idx_list:
                if not first:
                    f.write('{"e":"Reset"}\n')
                first = False
                for ev in traces[i]:
                    if not str(ev.get('e', '')).startswith('#'):      # '#...' pseudo-events (schedules) are not part of the history
                        f.write(json.dumps(ev, separators=(',', ':')) + '\n')

    def check(idx_list):
        fn = os.path.join(BUILD, 'traces', '%s-%d-%d.ndjson' % (tag, os.getpid(), stats['tlc_runs']))
        write(idx_list, fn)
        ok, r = validate_trace_file(spec_dir, module, cfg, fn, timeout=timeout)
        stats['tlc_runs'] += 1; stats['states'] += r.distinct; stats['transitions'] += r.generated
        if ok:
            os.unlink(fn)
        return ok

    n_ok = 0
    for b in range(0, len(traces), batch):
        idx = list(range(b, min(len(traces), b + batch)))
        if check(idx):
            n_ok += len(idx); continue
        # bisect to the first rejected execution
        lo = idx
        while len(lo) > 1:
            half = lo[:len(lo) // 2]
            if check(half):
                n_ok += len(half); lo = lo[len(lo) // 2:]
            else:
                lo = half
        # confirm (a rejection is reported only if it repeats)
        if check(lo):
            raise HarnessFailure('non-repeatable trace rejection in %s' % tag)
        return n_ok, lo[0], stats
    return n_ok, None, stats


# ------------------------------------------------------------------------------------------------ findings / reporting
def load_known_findings():
    known, fixed = [], []
    fn = os.path.join(VERIF, 'known_findings.txt')
    if os.path.exists(fn):
        for line in open(fn):
            line = line.strip()
            if line.startswith('known:'):
                d = dict(kv.split('=', 1) for kv in line[6:].split() if '=' in kv)
                d['_line'] = line
                known.append(d)
            elif line.startswith('fixed:'):
                fixed.append(line)
    return known, fixed


class Result:
    """accumulates what a check run covered; written as evidence"""
    def __init__(self, pid, tier, seed):
        self.pid = pid; self.tier = tier; self.seed = seed
        self.states = 0; self.transitions = 0; self.traces = 0; self.samples = []
        self.extra = {}; self.assumptions = []; self.violations = []   # list of (signature, replay path, description)
        self.known_hits = []; self.exhaustive = True; self.t0 = time.time(); self.notes = []

    def add_tlc(self, r, name=None):
        self.states += r.distinct; self.transitions += r.generated
        if name:
            self.extra.setdefault('tlc_runs', []).append({'model': name, 'distinct': r.distinct, 'generated': r.generated,
                                                          'wall_s': round(r.wall, 1), 'depth': r.depth})

    def sample(self, s):
        if len(self.samples) < 6:
            self.samples.append(s)

    def violation(self, signature, description, replay_obj):
        os.makedirs(os.path.join(OUT, self.pid), exist_ok=True)
        path = os.path.join(OUT, self.pid, '%s-%d.json' % (re.sub(r'[^A-Za-z0-9_.-]', '_', signature)[:80], len(self.violations)))
        with open(path, 'w') as f:
            json.dump({'property': self.pid, 'signature': signature, 'description': description, 'replay': replay_obj}, f, indent=1)
        self.violations.append((signature, path, description))

    def finish(self):
        known, _ = load_known_findings()
        real = []
        for sig, path, desc in self.violations:
            k = [x for x in known if x.get('property') == self.pid and x.get('signature') == sig]
            if k:
                if sig not in self.known_hits:
                    self.known_hits.append(sig)
                    print('KNOWN-FINDING: %s' % k[0]['_line'][6:].strip())
            else:
                real.append((sig, path, desc))
        cov = {'states': max(self.states, 0), 'transitions': max(self.transitions, 0),
               'traces_validated_against_impl': self.traces, 'samples': self.samples or ['(none)'],
               'exhaustive': bool(self.exhaustive)}
        cov.update(self.extra)
        ev = {'property_id': self.pid, 'tier': self.tier, 'seed': int(self.seed), 'level': 'model_checking', 'coverage': cov,
              'assumptions': self.assumptions, 'wall_s': round(time.time() - self.t0, 2), 'violations': len(real)}
        if self.known_hits:
            ev['coverage']['known_findings_reproduced'] = self.known_hits
        os.makedirs(EVIDENCE, exist_ok=True)
        with open(os.path.join(EVIDENCE, self.pid + '.json'), 'w') as f:
            json.dump(ev, f, indent=1)
        for sig, path, desc in real:
            print('VIOLATION property=%s replay=%s' % (self.pid, path))
            print('  ' + desc)
        sys.stdout.flush()
        return 1 if real else 0


def read_trace_file(fn):
    """ndjson with {"e":"Reset"} separators -> list of executions (each a list of event dicts)"""
    execs = [[]]
    with open(fn) as f:
        for line in f:
            line = line.strip()
            if not line:
                continue
            try:
                ev = json.loads(line)
            except ValueError:
                raise HarnessFailure('malformed trace line in %s: %r' % (fn, line[:200]))
            if ev.get('e') == 'Reset':
                execs.append([])
            else:
                execs[-1].append(ev)
    return execs


def dedupe_traces(execs):
    seen = {}; out = []
    for i, e in enumerate(execs):
        k = json.dumps([x for x in e if not str(x.get('e', '')).startswith('#')], sort_keys=True)
        if k not in seen:
            seen[k] = i; out.append(e)
    return out


# ------------------------------------------------------------------------------------------------ protocol replay driver
def model_check(res, spec_dir, module, cfg, name=None, must_hold=True, **kw):
    """exhaustive TLC run of a protocol/abstract model.  A violated invariant of the *model* is a harness/model failure
    unless the caller handles it (must_hold=False)."""
    r = tlc(spec_dir, module, cfg, **kw)
    res.add_tlc(r, name or (module + ':' + cfg))
    if must_hold:
        tlc_must_hold(r, name or module)
        if r.violation or r.deadlock:
            raise HarnessFailure('model %s (%s) violates %s - the specification does not hold at the design level:\n%s'
                                 % (module, cfg, r.violation or 'deadlock-freedom', r.out[-2500:]))
    return r


def graph_schedules(res, spec_dir, module, cfg, vars_, tag, max_len=800, limit=None, raw=False, timeout=1100):
    """TLC state graph dump -> edge-cover schedules file.  Returns (schedule file, n_paths, covered, total, TlcResult)"""
    os.makedirs(os.path.join(BUILD, 'graphs'), exist_ok=True)
    dot = os.path.join(BUILD, 'graphs', tag + '.dot')
    r = tlc(spec_dir, module, cfg, dump=dot, timeout=timeout)
    res.add_tlc(r, '%s:%s(graph)' % (module, cfg))
    tlc_must_hold(r, module)
    if r.violation or r.deadlock:
        raise HarnessFailure('model %s (%s) violates %s:\n%s' % (module, cfg, r.violation or 'deadlock-freedom', r.out[-2500:]))
    t1 = time.time()
    nodes, edges, init = parse_dot(dot, vars_, raw=raw)
    paths, cov, tot = edge_cover(nodes, edges, init, max_len=max_len, limit=limit)
    log('%s: TLC+dump %.1fs, parse+cover %.1fs' % (tag, r.wall, time.time() - t1))
    fn = os.path.join(BUILD, 'graphs', tag + '.sched')
    write_schedules(paths, fn)
    os.unlink(dot)
    return fn, len(paths), cov, tot, r


_drift_shown = [0]


def run_harness_parallel(cmd_fn, sched_file, tag, nproc=None, timeout=1100):
    """split sched_file into parts; cmd_fn(part_file, trace_file) -> argv.  Returns (list of summary dicts, list of trace files)"""
    nproc = nproc or NCPU
    parts = split_file(sched_file, nproc)
    os.makedirs(os.path.join(BUILD, 'traces'), exist_ok=True)
    tfs = [os.path.join(BUILD, 'traces', '%s-%d-%d.ndjson' % (tag, os.getpid(), i)) for i in range(len(parts))]
    ps = run_parallel([cmd_fn(p, t) for p, t in zip(parts, tfs)], timeout=timeout)
    sums = []
    for p, part in zip(ps, parts):
        if p is None:
            raise HarnessFailure('harness timed out on %s' % part)
        if p.returncode != 0:
            raise HarnessFailure('harness failed (rc=%d) on %s:\n%s' % (p.returncode, part, (p.stdout + p.stderr)[-3000:]))
        last = [l for l in p.stdout.splitlines() if l.startswith('{')]
        if not last:
            raise HarnessFailure('harness printed no summary:\n%s' % (p.stdout + p.stderr)[-2000:])
        sums.append(json.loads(last[-1]))
        for l in p.stderr.splitlines():
            if l.startswith('SPEC-DRIFT') and _drift_shown[0] < 6:
                _drift_shown[0] += 1
                print(l)
        os.unlink(part)
    return sums, tfs


def sum_dicts(ds):
    out = {}
    for d in ds:
        for k, v in d.items():
            if isinstance(v, (int, float)):
                out[k] = out.get(k, 0) + v
    return out


def collect_traces(tfs, keep=False):
    execs = []
    for t in tfs:
        if os.path.exists(t):
            execs += read_trace_file(t)
            if not keep:
                os.unlink(t)
    return execs


def validate_and_report(res, spec_dir, module, cfg, execs, tag, describe, batch=400, sig_fn=None, group_fn=None):
    """dedupe executions, validate with TLC; a rejected execution becomes a violation with signature sig_fn(trace).
    group_fn(trace) -> key: when something is rejected, every group is validated on its own so that one failing scenario cannot
    hide another one (one violation is reported per group and signature)."""
    d = dedupe_traces([e for e in execs if e])
    # which kinds of events the validated executions contained (vacuity: an event kind that never occurs means its clause was never exercised)
    ec = res.extra.setdefault('event_counts', {})
    for t in execs:
        for e in t:
            k = str(e.get('e', ''))
            if not k.startswith('#'):
                ec[k] = ec.get(k, 0) + 1
    n_ok, bad, stats = validate_traces(spec_dir, module, cfg, d, tag, batch=batch)
    res.states += stats['states']; res.transitions += stats['transitions']
    res.extra['distinct_property_traces'] = res.extra.get('distinct_property_traces', 0) + len(d)
    if d:
        res.sample({'scenario': tag, 'trace': [e for e in d[len(d) // 2] if not str(e.get('e', '')).startswith('#')][:40]})
    if bad is None:
        res.traces += len(execs)
        return 0
    groups = collections.OrderedDict()
    for t in d:
        groups.setdefault(group_fn(t) if group_fn else None, []).append(t)
    rejected = []

    def one(item):
        key, ts = item
        out = []; rest = ts; st = {'states': 0, 'transitions': 0}; ok = 0
        while rest and len(out) < 3:
            n_ok2, b, s2 = validate_traces(spec_dir, module, cfg, rest, '%s-g%d' % (tag, abs(hash(key)) % 100000), batch=batch)
            st['states'] += s2['states']; st['transitions'] += s2['transitions']; ok += n_ok2
            if b is None:
                break
            out.append(rest[b]); rest = rest[b + 1:]
        return out, st, ok
    with ThreadPoolExecutor(min(8, len(groups)) or 1) as ex:
        for out, st, ok in ex.map(one, list(groups.items())):
            res.states += st['states']; res.transitions += st['transitions']; res.traces += ok
            rejected += out
    seen = set()
    for tr in rejected:
        sig = sig_fn(tr) if sig_fn else tag
        if sig in seen:
            continue
        seen.add(sig)
        res.violation(sig, describe(tr), {'scenario': tag, 'trace': tr, 'trace_spec': module})
    return len(rejected)



def first_unexplained(spec_dir, module, cfg, trace, tag='fu', linear=False):
    """index of the first event of `trace` that no behaviour of the trace spec explains (bisect over prefixes), or None"""
    evs = [e for e in trace if not str(e.get('e', '')).startswith('#')]
    os.makedirs(os.path.join(BUILD, 'traces'), exist_ok=True)
    if linear:
        # a trace spec without internal (unlogged) steps has exactly one state per explained event: the number of distinct states of the
        # rejecting run is the length of the longest explained prefix + 1 - one TLC run instead of a bisection
        fn = os.path.join(BUILD, 'traces', '%s-%d-lin.ndjson' % (tag, os.getpid()))
        with open(fn, 'w') as f:
            for ev in evs:
                f.write(json.dumps(ev, separators=(',', ':')) + '\n')
        a, r = validate_trace_file(spec_dir, module, cfg, fn)
        os.unlink(fn)
        return None if a else min(max(r.distinct - 1, 0), len(evs) - 1)

    def ok(n):
        fn = os.path.join(BUILD, 'traces', '%s-%d-prefix.ndjson' % (tag, os.getpid()))
        with open(fn, 'w') as f:
            for ev in evs[:n]:
                f.write(json.dumps(ev, separators=(',', ':')) + '\n')
        a, _ = validate_trace_file(spec_dir, module, cfg, fn)
        os.unlink(fn)
        return a
    if not evs or ok(len(evs)):
        return None
    lo, hi = 0, len(evs)          # prefix lo accepted (empty trace trivially), prefix hi rejected
    while hi - lo > 1:
        mid = (lo + hi) // 2
        if mid == 0 or ok(mid):
            lo = mid
        else:
            hi = mid
    return hi - 1
