// Cooperative scheduler + total futex emulation + TSO store-buffer emulation.  Compiled WITHOUT the prelude.
#include "cosched.h"
#include <cstdio>
#include <cstdarg>
#include <cerrno>
#include <cstring>
#include <string>
#include <cstdlib>
#include <random>
#include <unordered_map>
#include <unistd.h>
#include <sys/syscall.h>
#include <linux/futex.h>
#include <pthread.h>

extern "C" { int verif_tso_active = 0; }

extern char** environ;
namespace cosched {
static thread_local LT* tls_lt = nullptr;
static Sched* g_sched = nullptr;
static sem_t g_wake;
static bool g_wake_init = false;
static std::vector<LT*> g_daemons;        // worker threads of the code under test that outlived the run that created them
static const void* g_tracked[256];
static int g_ntracked = 0;
static bool g_focus = false;
long g_untracked = 0;
std::function<void()> thread_exit_hook;
static std::atomic_flag g_ftx_lock = ATOMIC_FLAG_INIT;   // protects BLOCKED->HOOK transitions done by foreign threads
static void ftx_lock() { while (g_ftx_lock.test_and_set(std::memory_order_acquire)) { } }
static void ftx_unlock() { g_ftx_lock.clear(std::memory_order_release); }

static const char* g_rng_lo = nullptr; static const char* g_rng_hi = nullptr;
// Determinism: TBB seeds its victim-selection RNGs from object addresses, so a recorded schedule reproduces an execution only if the address space layout is the
// same.  Every harness therefore re-executes itself once with address-space randomisation switched off (VERIF_ASLR=1 keeps it on).
#include <sys/personality.h>
#include <malloc.h>
__attribute__((constructor)) static void verif_no_aslr() {
    if (getenv("VERIF_ASLR")) return;
    mallopt(M_ARENA_MAX, 1);      // one malloc arena: which arena a thread gets is a real-time race, and heap addresses feed the RNG seeds
    int p = personality(0xffffffff);
    if (p == -1 || (p & ADDR_NO_RANDOMIZE)) return;
    if (personality(p | ADDR_NO_RANDOMIZE) == -1) return;
    FILE* f = fopen("/proc/self/cmdline", "r"); if (!f) return;
    static char buf[1 << 16]; size_t n = fread(buf, 1, sizeof buf - 1, f); fclose(f); if (n == 0 || n >= sizeof buf - 1) return;
    static char* av[1024]; int ac = 0; for (size_t i = 0; i < n && ac < 1023; ) { av[ac++] = buf + i; i += strlen(buf + i) + 1; } av[ac] = nullptr;
    setenv("VERIF_ASLR_OFF", "1", 1);
    // the initial stack (argument and environment strings + their pointer arrays) is padded to a multiple of 32 KiB, so that the main thread's stack addresses
    // do not depend on the length of a file name or on a debugging variable
    { unsetenv("VERIF_PAD"); size_t sum = 0; for (char** e = environ; *e; ++e) sum += strlen(*e) + 1 + 8; for (int i = 0; i < ac; i++) sum += strlen(av[i]) + 1 + 8;
      size_t fixed = sum + strlen("VERIF_PAD=") + 1 + 8; size_t pad = (32768 - fixed % 32768) % 32768; std::string v(pad, 'x'); setenv("VERIF_PAD", v.c_str(), 1); }
    execv("/proc/self/exe", av);
}
void track(const void* a) { if (g_ntracked < 256) g_tracked[g_ntracked++] = a; }
void track_range(const void* lo, const void* hi) { g_rng_lo = (const char*)lo; g_rng_hi = (const char*)hi; }
void untrack_all() { g_ntracked = 0; g_rng_lo = g_rng_hi = nullptr; }
void focus_only(bool on) { g_focus = on; }
bool is_tracked(const void* a) { if ((const char*)a >= g_rng_lo && (const char*)a < g_rng_hi) return true; for (int i = 0; i < g_ntracked; i++) if (g_tracked[i] == a) return true; return false; }
bool self_is_daemon() { return tls_lt && tls_lt->daemon; }
int self_id() { return tls_lt ? tls_lt->id : -1; }
int num_blocked() { int c = 0; if (g_sched) for (auto* lt : g_sched->lts) if (lt->state.load() == ST_BLOCKED) ++c; return c; }
bool daemons_asleep() { int n = 0; if (g_sched) for (auto* lt : g_sched->lts) if (lt->daemon && lt->state.load() != ST_DONE) { if (lt->state.load() != ST_BLOCKED) return false; ++n; } return n > 0; }
bool is_done(int t) { return !g_sched || t >= (int)g_sched->lts.size() || g_sched->lts[t]->state.load() == ST_DONE; }
bool is_blocked(int t) { return g_sched && g_sched->lts[t]->state.load() == ST_BLOCKED; }

static void yield_to_sched(LT* lt, int st) {
    lt->state.store(st);
    sem_post(&g_wake);
    sem_wait(&lt->go);
}
static void park_blocked(LT* lt) {      // the state (ST_BLOCKED) was published under ftx_lock by the caller
    sem_post(&g_wake);
    sem_wait(&lt->go);
}
void yield_point() {
    LT* lt = tls_lt; if (!lt) return;
    lt->pend = {nullptr, K_YIELD, 0, 0};
    yield_to_sched(lt, ST_HOOK);
}

static void apply(const StoreEnt& e) {
    switch (e.size) {
    case 1: __atomic_store_n((uint8_t*)e.addr, *(const uint8_t*)e.val, __ATOMIC_SEQ_CST); break;
    case 2: __atomic_store_n((uint16_t*)e.addr, *(const uint16_t*)e.val, __ATOMIC_SEQ_CST); break;
    case 4: __atomic_store_n((uint32_t*)e.addr, *(const uint32_t*)e.val, __ATOMIC_SEQ_CST); break;
    case 8: __atomic_store_n((uint64_t*)e.addr, *(const uint64_t*)e.val, __ATOMIC_SEQ_CST); break;
    default: memcpy(e.addr, e.val, e.size);
    }
}

// a run that has taken more than soft_steps steps AND more than soft_seconds of real time is cut off as if it had reached its step limit (the step limits are
// generous, and on a loaded machine a livelocked run would otherwise outlive the watchdog of its process and be lost as a harness failure)
bool Sched::over_time() {
    if (steps < soft_steps || (steps & 1023)) return false;
    timespec ts; clock_gettime(CLOCK_MONOTONIC, &ts); double now = ts.tv_sec + ts.tv_nsec * 1e-9;
    return now - t_start > soft_seconds;
}
Sched::Sched() { { timespec ts; clock_gettime(CLOCK_MONOTONIC, &ts); t_start = ts.tv_sec + ts.tv_nsec * 1e-9; } if (!g_wake_init) { sem_init(&g_wake, 0, 0); g_wake_init = true; } g_sched = this; }
Sched::~Sched() { if (g_sched == this) g_sched = nullptr; }

void Sched::spawn(int n, std::function<void(int)> body, const std::vector<int>& tso_threads) {
    g_sched = this;
    for (int i = 0; i < n; i++) { LT* lt = new LT; lt->id = i; sem_init(&lt->go, 0, 0); lts.push_back(lt); }
    for (int t : tso_threads) { lts[t]->tso = true; verif_tso_active = 1; }
    for (int i = 0; i < n; i++) {
        LT* lt = lts[i];
        struct Start { LT* lt; std::function<void(int)> body; };
        Start* st = new Start{lt, body};
        pthread_create(&lt->th, nullptr, [](void* p) -> void* {
            Start* st = (Start*)p; LT* lt = st->lt;
            tls_lt = lt;
            sem_wait(&lt->go);
            st->body(lt->id);
            // drain and switch off the store buffer before the clean-up: clean-up code frees objects it has just stored to,
            // and an emulated buffer (unlike a real one) would commit those stores after the free
            for (auto& e : lt->buf) apply(e);
            lt->buf.clear(); lt->tso = false;
            if (thread_exit_hook) thread_exit_hook();
            delete st;
            lt->pend = {nullptr, K_NONE, 0, 0};
            tls_lt = nullptr;
            lt->state.store(ST_DONE);
            sem_post(&g_wake);
            return nullptr;
        }, st);
        lt->joinable = true;
        sem_post(&lt->go);     // let it run to its first schedule point
        sem_wait(&g_wake);
    }
    for (LT* d : g_daemons) { d->id = (int)lts.size(); lts.push_back(d); }
    g_daemons.clear();
}

bool Sched::all_done() const { for (auto* lt : lts) if (!lt->daemon && lt->state.load() != ST_DONE) return false; return true; }

bool Sched::step(int t) {
    LT* lt = lts[t];
    if (lt->state.load() != ST_HOOK) return false;
    unsigned char before[16]; unsigned sz = 0; const void* a = lt->pend.addr;
    // (loads are excluded: the word a load reads may be a dead stack slot by the time the thread stops again, and whatever the thread leaves there -
    //  a time stamp, say - would leak real time into the progress heuristic and make schedules irreproducible)
    if (a && lt->pend.size <= 16 && lt->pend.kind >= K_STORE && lt->pend.kind <= K_CAS) { sz = lt->pend.size; memcpy(before, a, sz); }
    size_t bufsz = lt->buf.size();
    int prevkind = lt->pend.kind;
    ++steps;
    if (log_schedule) sched_log.push_back(t);
    static FILE* steplog = getenv("VERIF_STEPLOG") ? fopen(getenv("VERIF_STEPLOG"), "a") : nullptr;   // debugging: one line per granted step
    if (steplog) fprintf(steplog, "%ld t%d k%d %p\n", steps, t, lt->pend.kind, lt->pend.addr);
    lt->state.store(ST_RUN);
    sem_post(&lt->go);
    // a step that does not reach its next schedule point (an atomic access, a futex call, the end of the thread) within hang_seconds of real time is a loop
    // in the code under test that touches no shared variable at all: no other thread could ever end it.  The run is over (RC_HANG); the thread is abandoned.
    { timespec ts; clock_gettime(CLOCK_REALTIME, &ts); ts.tv_sec += hang_seconds; int r;
      while ((r = sem_timedwait(&g_wake, &ts)) == -1 && errno == EINTR) { }
      if (r == -1) { hung = true; return false; } }
    int st = lt->state.load();
    // determinism: a finished logical thread is joined before anyone else runs (its real exit path frees memory, which would otherwise race with the
    // allocations of the threads scheduled next and make heap addresses - hence address-seeded RNGs - differ from run to run)
    // (bounded wait: an exit path that needs a parked logical thread must not wedge the scheduler; such a thread is joined in join_all)
    if (st == ST_DONE && !lt->daemon && lt->joinable) {
        timespec ts; clock_gettime(CLOCK_REALTIME, &ts); ts.tv_nsec += 200000000; if (ts.tv_nsec >= 1000000000) { ts.tv_nsec -= 1000000000; ++ts.tv_sec; }
        if (pthread_timedjoin_np(lt->th, nullptr, &ts) == 0) lt->joinable = false;
    }
    bool changed = (st != ST_HOOK) || (sz && memcmp(before, a, sz) != 0) || lt->buf.size() != bufsz
                   || prevkind == K_FUTEX_WAKE /* the step just taken may have woken someone */;
    if (changed) last_change = steps;
    return true;
}

bool Sched::drain_one(int t) {
    LT* lt = lts[t];
    if (lt->buf.empty()) return false;
    apply(lt->buf.front());
    lt->buf.erase(lt->buf.begin());
    ++drains; last_change = steps;
    if (log_schedule) sched_log.push_back(-(t + 1));
    return true;
}

// PCT-style priority schedule (Burckhardt et al.): random distinct thread priorities, always run the highest-priority runnable thread,
// `depth` priority-change points at random step indices (the running thread drops below everybody).  A thread that spins (many
// consecutive steps of its own without changing anything) is treated as yielding: it drops below everybody, so the thread it waits
// for gets to run.  Finds windows that need one thread to stall for hundreds of steps, which uniform random switching never does.
static long g_est_len = 1500;
// Before a deadlock is declared: a finished logical thread whose real exit path is still running (outside scheduler control) may be about to wake a sleeper.
// Such threads are joined (bounded); returns true if somebody became runnable meanwhile.
bool Sched::settle_exits() {
    bool waited = false;
    for (auto* lt : lts) if (!lt->daemon && lt->state.load() == ST_DONE && lt->joinable) {
        timespec ts; clock_gettime(CLOCK_REALTIME, &ts); ts.tv_sec += 2;
        if (pthread_timedjoin_np(lt->th, nullptr, &ts) == 0) lt->joinable = false;
        waited = true; }
    if (!waited) return false;
    for (auto* lt : lts) if (lt->state.load() == ST_HOOK) return true;
    return false;
}
int Sched::run_pct(uint64_t seed, long maxsteps, int depth) {
    std::mt19937_64 rng(seed);
    int nt = n();
    std::vector<long> prio(nt);
    std::vector<int> perm(nt); for (int i = 0; i < nt; i++) perm[i] = i;
    for (int i = nt - 1; i > 0; i--) std::swap(perm[i], perm[rng() % (i + 1)]);
    for (int i = 0; i < nt; i++) prio[perm[i]] = depth + 1 + i;
    std::vector<long> cps; for (int k = 0; k < depth; k++) cps.push_back((long)(rng() % (uint64_t)(g_est_len > 0 ? g_est_len : 1)));
    int budget = depth;                   // focus-biased change points still available
    long low = 0;                         // next "below everybody" priority (decreasing)
    std::vector<int> idle(nt, 0);
    int rc; int last = -1; long streak = 0; long fair = 1500 + (long)(rng() % 1500);
    std::unordered_map<const void*, int> last_toucher;
    for (;;) {
        while ((int)prio.size() < n()) { prio.push_back(1 + (long)(rng() % (uint64_t)(depth + nt + 1))); idle.push_back(0); }   // threads created by the code under test
        bool alldone = true; int best = -1; bool wbuf = false; int nrun = 0;
        for (auto* lt : lts) { int s = lt->state.load(); if (s != ST_DONE && !lt->daemon) alldone = false; if (!lt->buf.empty()) wbuf = true;
            if (s == ST_HOOK) { ++nrun; if (best < 0 || prio[lt->id] > prio[best]) best = lt->id; } }
        if (alldone) { rc = RC_OK; break; }
        if (wbuf && (best < 0 || (rng() % 4) == 0)) { for (auto* lt : lts) if (!lt->buf.empty()) { drain_one(lt->id); break; } continue; }
        if (best < 0) { if (settle_exits()) continue; rc = RC_DEADLOCK; break; }
        if (hung) { rc = RC_HANG; break; }
        if (steps > maxsteps || over_time()) { rc = RC_STEPLIMIT; break; }
        if (steps - last_change > stall_limit) { rc = RC_STALL; break; }
        long before = last_change;
        // focus-biased change points: right after an access to a tracked (protocol) address the thread is pre-empted with probability 1/3
        bool focus_cp = budget > 0 && g_ntracked > 0 && lts[best]->pend.addr && is_tracked(lts[best]->pend.addr) && (rng() % 3) == 0;
        // contention-biased change points (harnesses that track nothing): right after an access to a word that another thread touched last, the thread is
        // pre-empted with probability 1/6 - races live around words that change hands
        if (budget > 0 && g_ntracked == 0 && lts[best]->pend.addr && lts[best]->pend.kind <= K_CAS) {
            auto it = last_toucher.find(lts[best]->pend.addr);
            if (it != last_toucher.end() && it->second != best && (rng() % 6) == 0) focus_cp = true;
            last_toucher[lts[best]->pend.addr] = best;
        }
        step(best);
        if (focus_cp) { prio[best] = --low; --budget; }
        if (last_change != before || last_change == steps) idle[best] = 0; else if (++idle[best] >= 40) { prio[best] = --low; idle[best] = 0; }
        for (long cp : cps) if (cp == steps) { prio[best] = --low; break; }
        // eventual fairness: a thread that keeps the processor for very long while others could run is pre-empted (a waiter that spins
        // *with* side effects - re-registering in a wait set, say - would otherwise starve the thread it waits for)
        // The length of the slice is drawn anew every time: with a fixed slice a thread whose loop period divides it would always be pre-empted in the same phase -
        // e.g. always while it holds the spin lock the other thread is trying to take, which no real machine would sustain (strong fairness of lock acquisition
        // is probabilistic there; here it has to be made so).
        if (best == last) { if (++streak >= fair && nrun > 1) { prio[best] = --low; streak = 0; fair = 700 + (long)(rng() % 2300); } } else { last = best; streak = 0; }
    }
    g_est_len = (g_est_len * 7 + steps) / 8;
    return rc;
}

int Sched::run_random(uint64_t seed, long maxsteps, int switch_den) {
    if (switch_den < 0) return run_pct(seed, maxsteps, -switch_den);
    std::mt19937_64 rng(seed);
    int cur = -1;
    for (;;) {
        std::vector<int> r, wb; bool alldone = true;
        for (auto* lt : lts) { int s = lt->state.load(); if (s != ST_DONE && !lt->daemon) alldone = false; if (s == ST_HOOK) r.push_back(lt->id); if (!lt->buf.empty()) wb.push_back(lt->id); }
        if (alldone) return RC_OK;
        if (!wb.empty() && (r.empty() || (rng() % 3) == 0)) { drain_one(wb[rng() % wb.size()]); continue; }
        if (r.empty()) { if (settle_exits()) continue; return RC_DEADLOCK; }
        if (hung) return RC_HANG;
        if (steps > maxsteps || over_time()) return RC_STEPLIMIT;
        if (steps - last_change > stall_limit) return RC_STALL;
        int t;
        bool cur_ok = cur >= 0 && lts[cur]->state.load() == ST_HOOK;
        // a thread that is spinning (no change for a while) is pre-empted so others can make the change it waits for
        if (cur_ok && switch_den > 1 && (rng() % switch_den) != 0 && steps - last_change < 64) t = cur;
        else t = r[rng() % r.size()];
        cur = t;
        step(t);
    }
}

int Sched::run_schedule(const std::vector<int>& sched, long maxsteps) {
    for (int t : sched) {
        if (t < 0) { drain_one(-t - 1); continue; }
        if (t < n() && lts[t]->state.load() == ST_HOOK) step(t);
    }
    return finish(maxsteps);
}

int Sched::finish(long maxsteps) {
    for (;;) {
        bool alldone = true, any = false;
        for (size_t i = 0; i < lts.size(); i++) { LT* lt = lts[i];
            int s = lt->state.load();
            if (s != ST_DONE && !lt->daemon) alldone = false;
            if (!lt->buf.empty()) { while (drain_one(lt->id)) {} }
            if (s == ST_HOOK) { any = true; step(lt->id); }
        }
        if (alldone) return RC_OK;
        if (!any) { if (settle_exits()) continue; return RC_DEADLOCK; }
        if (hung) return RC_HANG;
        if (steps > maxsteps || over_time()) return RC_STEPLIMIT;
        if (steps - last_change > stall_limit) return RC_STALL;
    }
}

// Library-created threads (workers) that are still running when the scenario threads have finished are run on until they sleep: a worker
// that is parked at an arbitrary schedule point may hold a lock of the library, and the uncontrolled code that follows the run (tear-down
// of the scenario's objects on the harness's main thread, the next run's set-up) would block on it for ever.
void Sched::settle_daemons(long maxsteps) {
    long lim = steps + maxsteps;
    for (;;) {
        bool any = false;
        for (size_t i = 0; i < lts.size(); i++) { LT* lt = lts[i];
            if (!lt->buf.empty()) { while (drain_one(lt->id)) {} }
            if (lt->daemon && lt->state.load() == ST_HOOK) { any = true; step(lt->id); } }
        if (!any || steps > lim || hung) return;
    }
}

void Sched::join_all() {
    // after a hang the abandoned thread is still running: nothing else can be executed in this process (the harness has already logged the outcome)
    if (hung) { fflush(nullptr); _exit(3); }
    settle_daemons(2000000);
    for (auto* lt : lts) {
        if (lt->daemon) { if (lt->state.load() != ST_DONE) g_daemons.push_back(lt); continue; }   // a parked worker is adopted by the next run
        if (lt->state.load() == ST_DONE) { if (lt->joinable) pthread_join(lt->th, nullptr); sem_destroy(&lt->go); delete lt; }
        else pthread_detach(lt->th);   // stuck run: the thread stays parked for ever (harness exits soon)
    }
    lts.clear();
    verif_tso_active = 0;
}

std::string rc_name(int rc) { switch (rc) { case 0: return "ok"; case 1: return "deadlock"; case 2: return "steplimit"; case 3: return "stall"; case 4: return "hang"; } return "?"; }
} // namespace cosched

using namespace cosched;

extern "C" void verif_atomic_hook(const void* addr, int kind, int order, unsigned size) {
    LT* lt = tls_lt; if (!lt) return;
    ++lt->hooks;
    if (g_focus && !is_tracked(addr)) { ++g_untracked; return; }
    lt->pend = {addr, kind, order, size};
    yield_to_sched(lt, ST_HOOK);
}
extern "C" void verif_tso_flush() { LT* lt = tls_lt; if (!lt || lt->buf.empty()) return; for (auto& e : lt->buf) apply(e); lt->buf.clear(); }
extern "C" int verif_tso_store(void* addr, const void* val, unsigned size, int) {
    LT* lt = tls_lt; if (!lt || !lt->tso || size > 16) return 0;
    StoreEnt e; e.addr = addr; e.size = size; memcpy(e.val, val, size); lt->buf.push_back(e);
    if (g_sched) ++g_sched->buffered;
    return 1;
}
extern "C" int verif_tso_load(const void* addr, void* out, unsigned size) {
    LT* lt = tls_lt; if (!lt || lt->buf.empty()) return 0;
    for (auto it = lt->buf.rbegin(); it != lt->buf.rend(); ++it)
        if (it->addr == addr && it->size == size) { memcpy(out, it->val, size); return 1; }
    return 0;
}

// Threads created by the code under test (RML workers) while a logical thread is running become logical threads themselves ("daemons"):
// every shared access of a worker is a schedule point too, so scenarios with real workers stay deterministic and fully explored.
static void* daemon_trampoline(void* p) {
    LT* lt = (LT*)p;
    tls_lt = lt;
    sem_wait(&lt->go);                     // first grant
    void* r = lt->fn(lt->arg);
    for (auto& e : lt->buf) apply(e);
    lt->buf.clear();
    lt->pend = {nullptr, K_NONE, 0, 0};
    tls_lt = nullptr;
    lt->state.store(ST_DONE);
    sem_post(&g_wake);
    return r;
}
extern "C" int verif_pthread_create(pthread_t* h, const pthread_attr_t* attr, void* (*fn)(void*), void* arg) {
    LT* cur = tls_lt;
    if (!cur || !g_sched) return pthread_create(h, attr, fn, arg);
    LT* lt = new LT; lt->daemon = true; lt->fn = fn; lt->arg = arg; sem_init(&lt->go, 0, 0);
    lt->pend = {nullptr, K_NONE, 0, 0}; lt->state.store(ST_HOOK);      // parked before its first instruction
    int rc = pthread_create(h, attr, daemon_trampoline, lt);
    if (rc != 0) { delete lt; return rc; }
    lt->id = (int)g_sched->lts.size(); g_sched->lts.push_back(lt);      // safe: the scheduler thread is waiting for the creator's step to end
    ++g_sched->daemons_created;
    return 0;
}

// Total futex emulation: every FUTEX_WAIT/WAKE of the process passes here.
extern "C" long verif_syscall(long nr, ...) {
    va_list ap; va_start(ap, nr); long a[6]; for (int i = 0; i < 6; i++) a[i] = va_arg(ap, long); va_end(ap);
    if (nr == SYS_futex) {
        int op = (int)a[1] & ~FUTEX_PRIVATE_FLAG; int* addr = (int*)a[0];
        LT* lt = tls_lt;
        if (op == FUTEX_WAIT && lt) {
            verif_tso_flush();
            lt->pend = {addr, K_FUTEX_WAIT, 0, 4};
            yield_to_sched(lt, ST_HOOK);                       // schedule point before the atomic check-and-block
            // value check and transition to BLOCKED are one atomic step also with respect to FOREIGN wakers (threads outside scheduler control: the exit path of a
            // finished logical thread, a clean-up call from the harness' main thread): a wake that slipped between the two would be lost, which no kernel futex allows
            ftx_lock();
            if (__atomic_load_n(addr, __ATOMIC_SEQ_CST) != (int)a[2]) { ftx_unlock(); errno = EAGAIN; return -1; }
            if (g_sched) ++g_sched->futex_waits;
            lt->waitaddr = addr;
            lt->pend = {addr, K_YIELD, 0, 0};
            lt->state.store(ST_BLOCKED);
            ftx_unlock();
            park_blocked(lt);                                  // resumed only after a wake marked us runnable and the scheduler granted a step
            return 0;
        }
        if (op == FUTEX_WAKE) {
            if (lt) { verif_tso_flush(); lt->pend = {addr, K_FUTEX_WAKE, 0, 4}; yield_to_sched(lt, ST_HOOK); }
            int n = 0;
            ftx_lock();
            if (g_sched) for (auto* w : g_sched->lts) {
                if (n >= (int)a[2]) break;
                if (w->state.load() == ST_BLOCKED && w->waitaddr == addr) { w->waitaddr = nullptr; w->state.store(ST_HOOK); ++n; }
            }
            ftx_unlock();
            if (g_sched) ++g_sched->futex_wakes;
            long k = ::syscall(nr, a[0], a[1], a[2] - n > 0 ? a[2] - n : 0, a[3], a[4], a[5]);   // kernel sleepers (non-logical threads)
            return n + (k > 0 ? k : 0);
        }
    }
    return ::syscall(nr, a[0], a[1], a[2], a[3], a[4], a[5]);
}
