// Cooperative scheduler for logical threads (DESIGN.md 2.2/2.3).  Compiled WITHOUT the prelude.
// Logical threads are real std::threads; exactly one runs at a time.  Every instrumented atomic access
// (verif_atomic_hook, called by the prelude before the access) is a schedule point.
#pragma once
#include <semaphore.h>
#include <atomic>
#include <vector>
#include <functional>
#include <thread>
#include <pthread.h>
#include <cstdint>
#include <string>

namespace cosched {
enum Kind { K_LOAD = 0, K_STORE = 1, K_RMW = 2, K_CAS = 3, K_FENCE = 4, K_FUTEX_WAIT = 5, K_FUTEX_WAKE = 6, K_YIELD = 7, K_NONE = 9 };
enum St { ST_RUN = 0, ST_HOOK = 1, ST_DONE = 2, ST_BLOCKED = 3 };
enum Rc { RC_OK = 0, RC_DEADLOCK = 1, RC_STEPLIMIT = 2, RC_STALL = 3, RC_HANG = 4 };   // RC_HANG: a single step never came back (loop without any shared access)

struct Pending { const void* addr; int kind; int order; unsigned size; };
struct StoreEnt { void* addr; unsigned size; unsigned char val[16]; };

struct LT {
    int id;
    sem_t go;
    Pending pend{nullptr, K_NONE, 0, 0};
    std::atomic<int> state{ST_RUN};
    const void* waitaddr = nullptr;
    pthread_t th{}; bool joinable = false;   // the real thread behind a scenario thread (daemons are created by the code under test)
    long hooks = 0;
    bool tso = false;                 // this logical thread buffers its non-seq_cst stores
    bool daemon = false;              // created by the code under test (an RML worker): the run does not wait for it to finish
    void* (*fn)(void*) = nullptr; void* arg = nullptr;
    std::vector<StoreEnt> buf;        // FIFO store buffer (TSO emulation)
};

// ---- focus set -------------------------------------------------------------------------------------------------
// With focus on, only tracked addresses are schedule points (others run through, counted in g_untracked).
void track(const void* addr);
void track_range(const void* lo, const void* hi);   // every address in [lo, hi) is tracked (node pools)
void untrack_all();
void focus_only(bool on);
bool is_tracked(const void* addr);
extern long g_untracked;

// called at the end of every logical thread's body while still under scheduler control (TBB TLS clean-up)
extern std::function<void()> thread_exit_hook;

// a harness-level schedule point (does not count as progress)
void yield_point();
bool self_is_daemon();         // the calling thread is a logical thread created by the code under test (a worker)
int  self_id();               // id of the calling logical thread, -1 if not logical
int  num_blocked();           // number of logical threads blocked in an emulated futex wait
bool is_blocked(int t);
bool daemons_asleep();         // at least one library-created thread exists and all of them are blocked in an emulated futex wait
bool is_done(int t);             // the logical thread finished its body

struct Sched {
    std::vector<LT*> lts;
    long steps = 0;
    long last_change = 0;             // step index of the last step that changed memory / thread state
    long stall_limit = 20000;         // consecutive no-change steps => RC_STALL
    long drains = 0, buffered = 0, futex_waits = 0, futex_wakes = 0, daemons_created = 0;
    std::vector<int> sched_log;       // thread id of every granted step (>=0) / -(t+1) for a drain of t's buffer
    bool log_schedule = false;
    bool hung = false; int hang_seconds = 45;
    long soft_steps = 1000000; double soft_seconds = 90, t_start = 0; bool over_time();

    Sched();
    ~Sched();
    void spawn(int n, std::function<void(int)> body, const std::vector<int>& tso_threads = {});
    bool step(int t);                 // grant one step to t (must be ST_HOOK); false if not runnable
    bool drain_one(int t);            // TSO: commit the oldest buffered store of t
    int  state(int t) const { return lts[t]->state.load(); }
    Pending pending(int t) const { return lts[t]->pend; }
    bool done(int t) const { return state(t) == ST_DONE; }
    bool runnable(int t) const { return state(t) == ST_HOOK; }
    bool all_done() const;            // every non-daemon thread finished
    int  n() const { return (int)lts.size(); }
    // random schedule: at each step continue the current thread unless rng()%switch_den==0 (switch_den=1: uniform)
    // switch_den < 0: PCT-style priority schedule with -switch_den priority-change points (run_pct)
    int  run_random(uint64_t seed, long maxsteps, int switch_den = 1);
    int  run_pct(uint64_t seed, long maxsteps, int depth);
    // follow a list of thread ids as far as possible (skipping non-runnable), then round robin
    int  run_schedule(const std::vector<int>& sched, long maxsteps);
    int  finish(long maxsteps = 5000000);   // round robin to completion
    bool settle_exits();              // before declaring a deadlock: wait for the real exit paths of finished threads
    void settle_daemons(long maxsteps); // run library-created threads until they sleep (called by join_all)
    void join_all();                  // joins finished threads, detaches the rest (stuck runs)
};

std::string rc_name(int rc);
}
